"""Nondeterministic / uninterpreted stubs with contracts for the optimiser properties.

Every stub is installed by namespace injection (attribute replacement on the imported module
object in the harness process).  Each contract used as an assumption is an obligation of
another check (assume-guarantee table in DESIGN.md section 4).
"""
from fractions import Fraction

import z3

from . import symx
from .symx import SBool, SNum, SymRGB, lift, sbool


def _ints(c):
    out = []
    for x in tuple(c):
        v = lift(x)
        if not v.is_int:
            raise symx.Unsupported("colour channel is not an integer term")
        out.append(v.t)
    return out


class Stubs:
    def __init__(self, eng):
        self.eng = eng
        self.calls = []
        I, R = z3.IntSort(), z3.RealSort()
        self.CR = z3.Function("CR", I, I, I, I, I, I, R)
        self.DE = z3.Function("DE", I, I, I, I, I, I, R)
        self.LIN = z3.Function("LIN", R, R)

    # -- uninterpreted functions with contracts ---------------------------------------------------
    def lin(self, c):
        """srgb_to_linear as an uninterpreted function (contract from C05.1: values in [0,1])"""
        c = lift(c)
        y = self.LIN(c.real())
        self.eng.add_side(z3.And(y >= 0, y <= 1))
        return SNum(y)

    def contrast(self, a, b):
        """calculate_contrast_ratio as UF: a function of its two colours, symmetric, in [1,21] (C05.2)"""
        xa, xb = _ints(a), _ints(b)
        y = self.CR(*(xa + xb))
        self.eng.add_side(z3.And(y >= 1, y <= 21, y == self.CR(*(xb + xa))))
        return SNum(y)

    def delta_e(self, a, b):
        """calculate_delta_e_2000 as UF: >= 0, symmetric, 0 for identical colours (C11)"""
        xa, xb = _ints(a), _ints(b)
        y = self.DE(*(xa + xb))
        same = z3.And(*[p == q for p, q in zip(xa, xb)])
        self.eng.add_side(z3.And(y >= 0, y == self.DE(*(xb + xa)), z3.Implies(same, y == 0)))
        return SNum(y)

    # -- colour space conversions as fresh values ----------------------------------------------------
    def rgb_to_oklch_safe(self, rgb):
        e = self.eng
        e.counter += 1
        n = e.counter
        l = e.real_var("okl!%d" % n, 0, 1)
        c = e.real_var("okc!%d" % n, 0, None)
        h = e.real_var("okh!%d" % n, 0, 360)
        return (l, c, h)

    def oklch_to_rgb_safe(self, oklch):
        return self.eng.fresh_rgb("cand")

    # -- search routines --------------------------------------------------------------------------------
    def search_stub(self, name, contract=True):
        """binary_search_lightness / gradient_descent_oklch: None, or a valid colour within the tolerance"""
        def stub(text_rgb, bg_rgb, delta_e_threshold=2.0, target_contrast=7.0, large_text=False, *a, **k):
            e = self.eng
            self.calls.append((name, text_rgb, bg_rgb, delta_e_threshold, target_contrast))
            if e.fresh_bool(name + "_none"):
                return None
            out = e.fresh_rgb(name)
            if contract:
                e.assume(self.delta_e(text_rgb, out) <= delta_e_threshold)
            return out
        return stub

    def g_stub(self, monotone=False, bounded=False, contrast_fn=None, default_seq_max=5.0):
        """generate_accessible_color: its input, or any valid 8-bit colour (optionally under the contracts
        'contrast not lower' (C02.B1) and 'within the largest tolerance of the schedule' (C04.3))"""
        def stub(text_rgb, bg_rgb, large=False, target_contrast=None, min_contrast=None, delta_e_sequence=None):
            e = self.eng
            rec = dict(kind="G", text=text_rgb, bg=bg_rgb, large=large, target=target_contrast, minc=min_contrast,
                       seq=None if delta_e_sequence is None else list(delta_e_sequence), out=text_rgb)
            self.calls.append(rec)
            if e.fresh_bool("G_same"):
                return text_rgb
            out = e.fresh_rgb("G")
            rec["out"] = out
            if monotone:
                cf = contrast_fn or self.contrast
                e.assume(cf(out, bg_rgb) >= cf(text_rgb, bg_rgb))
            if bounded:
                mx = default_seq_max if delta_e_sequence is None else max(delta_e_sequence)
                e.assume(self.delta_e(text_rgb, out) <= mx)
            return out
        return stub

    def rec_stub(self, contrast_fn=None, monotone=False):
        """_strategy_recursive as seen from _strategy_relaxed: (its input or any valid colour, flag) with the
        contract 'flag == (contrast(colour, bg) >= min_contrast)' -- exactly what the mode-1 job proves (C01) --
        and optionally 'contrast not lower than the input's' (C02.B2, also proved on the mode-1 job)."""
        def stub(text_rgb, bg_rgb, large, target_contrast, min_contrast):
            e = self.eng
            rec = dict(kind="REC", text=text_rgb, bg=bg_rgb, large=large, target=target_contrast, minc=min_contrast, out=text_rgb)
            self.calls.append(rec)
            cf = contrast_fn or self.contrast
            if e.fresh_bool("REC_same"):
                out = text_rgb
            else:
                out = e.fresh_rgb("REC")
                rec["out"] = out
                if monotone:
                    e.assume(cf(out, bg_rgb) >= cf(text_rgb, bg_rgb))
            ok = cf(out, bg_rgb) >= min_contrast
            return out, ok
        return stub
