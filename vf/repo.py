"""Fresh import of the repository's modules from the current working tree."""
import importlib
import os
import sys

REPO = os.environ.get("VERIF_REPO", "/repo")
SRC = os.path.join(REPO, "src")


def load(*names):
    """Import cm_colors modules from REPO/src (never from an installed copy)."""
    if SRC not in sys.path[:1]:
        sys.path.insert(0, SRC)
    for m in [m for m in sys.modules if m == "cm_colors" or m.startswith("cm_colors.")]:
        del sys.modules[m]
    out = []
    for n in names:
        mod = importlib.import_module(n)
        f = os.path.realpath(mod.__file__)
        if not f.startswith(os.path.realpath(SRC) + os.sep):
            raise RuntimeError("module %s loaded from %s, not from %s" % (n, f, SRC))
        out.append(mod)
    return out if len(out) != 1 else out[0]
