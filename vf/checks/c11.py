"""C11 -- CIE Lab and CIEDE2000 agree with the CIE definitions."""
import math
import os
import traceback
from fractions import Fraction

import z3

from .. import ref, refde, repo, runner, symx
from ..harness import EPS, close, conj, dec, disj, implies, load_core
from ..symx import SBool, SNum, SymRGB, lift, sbool

ID = "C11"

META = dict(
    explanation=(
        "Lab: symx executes the real rgb_to_xyz / xyz_to_lab / rgb_to_lab on three symbolic 8-bit channels (64 paths: 8 transfer-function x 8 "
        "f(t) branch combinations); per path z3 compares X, Y, Z and L*, a*, b* with the CIE reference (sRGB matrix and D65 white typed "
        "independently; cube roots as uninterpreted functions, so equality is congruence + linear arithmetic and any changed constant is a "
        "linear witness).  CIEDE2000: the real calculate_delta_e_2000 is executed with the RGB->Lab function it looks up replaced by a stub that "
        "returns two FREE real Lab triples (L in [0,100], a,b in [-128,128]: a superset of the sRGB gamut), jointly with an independently "
        "transcribed Sharma-Wu-Dalal reference under the same uninterpreted sqrt / atan2 / sin / cos / exp / x^7; on every feasible path of the "
        "hue-difference, hue-mean and zero-chroma branch logic z3 proves the two results equal, the result >= 0, and that no exception can be "
        "raised (radicands >= 0, denominators != 0).  The reference itself is validated on every run against the 34 published test pairs."),
    functions=["conversions.rgb_to_xyz", "conversions.xyz_to_lab", "conversions.rgb_to_lab", "conversions.srgb_to_linear",
               "color_metrics.calculate_delta_e_2000", "conversions.calculate_hue_angle"],
    stubs=["color_metrics.rgb_to_lab -> free real Lab triples (harness-side replacement named in the property's anchor)",
           "sqrt, atan2, sin, cos, exp, x^7, x^(1/3) -> uninterpreted functions with sign/range/monotonicity-vs-1 axioms"],
    bounds=["Lab: all 2^24 colours", "CIEDE2000: all real Lab pairs in [0,100] x [-128,128]^2 (each)", "real model of doubles; tolerance of the property 0.05, obligations use 1e-6"],
    outside=["numeric values of the transcendental functions (equivalence with the CIE formula is decided, by congruence)",
             "'zero only for identical colours' (needs magnitudes); symmetry in the arguments is NOT decided (the two-run encoding needs parity / periodicity "
             "of the uninterpreted sin/cos/atan2; replays do compare both argument orders concretely)",
             "the CIE constants (6/29)^3, 841/108 are used in their customary rounded form 0.008856 / 7.787 (difference < 5e-5 in Lab)"],
    trusted=["z3 (nlsat for the radicand obligation)", "vf/ref.py CIE reference, validated against Sharma-Wu-Dalal Table 1 (34 pairs) on every run"],
    assumptions=["doubles as reals"],
)


def _is_zero(t):
    return (z3.is_rational_value(t) or z3.is_int_value(t)) and symx.z3_to_frac(t) == 0


def _negative_term(lit):
    """t for a literal that says t < 0 in one of the shapes z3.simplify leaves it in: t < 0, 0 > t, Not(0 <= t), Not(t >= 0)"""
    if not z3.is_app(lit):
        return None
    k = lit.decl().kind()
    if k == z3.Z3_OP_LT and _is_zero(lit.arg(1)):
        return lit.arg(0)
    if k == z3.Z3_OP_GT and _is_zero(lit.arg(0)):
        return lit.arg(1)
    if k == z3.Z3_OP_NOT and z3.is_app(lit.arg(0)):
        a = lit.arg(0)
        if a.decl().kind() == z3.Z3_OP_LE and _is_zero(a.arg(0)):
            return a.arg(1)
        if a.decl().kind() == z3.Z3_OP_GE and _is_zero(a.arg(1)):
            return a.arg(0)
    return None


def jobs(tier):
    js = [dict(kind="lab", case=i) for i in range(8)]
    n = 14
    for i in range(n):
        js.append(dict(kind="de", shard=[i, n, 12]))
    if __import__("os").environ.get("VERIF_C11_SYM") == "1":
        # symmetry dE(a,b) == dE(b,a): two runs under uninterpreted sin/cos/atan2 need parity/periodicity reasoning that the
        # instance axioms provided here do not give the solvers (59 of 647 obligations 'unknown' in 20 min): in neither tier
        for i in range(n):
            js.append(dict(kind="de-sym", shard=[i, n, 12]))
    return js


def run_job(job):
    m = load_core()
    conv, cm = m.conversions, m.color_metrics
    kind = job["kind"]
    eng = symx.Engine(feas_timeout_ms=300 if kind == "lab" else 120)
    out = runner.JobOut(job)

    if kind == "lab":
        def fn():
            rgb = eng.rgb_var("t")
            for j, ch in enumerate(rgb):
                eng.assume(ch >= 11 if (job["case"] >> j) & 1 else ch <= 10)
            xyz = conv.rgb_to_xyz(rgb)
            lab = conv.xyz_to_lab(xyz)
            lab2 = conv.rgb_to_lab(rgb)
            rxyz = ref.xyz_from_rgb(rgb)
            rlab = ref.lab_from_xyz(rxyz)
            for nm, a, b in zip("XYZ", xyz, rxyz):
                eng.oblige("%s == CIE XYZ (D65)" % nm, close(a, b, Fraction(1, 10 ** 6)))
            for nm, a, b in zip(("L*", "a*", "b*"), lab, rlab):
                eng.oblige("%s == CIE L*a*b*" % nm, close(a, b, Fraction(1, 10 ** 6)))
            eng.oblige("rgb_to_lab == xyz_to_lab(rgb_to_xyz)", conj(*[close(a, b, Fraction(0)) for a, b in zip(lab, lab2)]))
            eng.oblige("L* in [0,100]", conj(lift(lab[0]) >= 0, lift(lab[0]) <= 100))
            return lab
        rk = "lab"
    else:
        A, B = ("A",), ("B",)
        labs = {}

        def lab_stub(x):
            return labs[x[0]]

        cm.rgb_to_lab = lab_stub
        real = cm.calculate_delta_e_2000

        def mk():
            labs["A"] = (eng.real_var("L1", 0, 100), eng.real_var("a1", -128, 128), eng.real_var("b1", -128, 128))
            labs["B"] = (eng.real_var("L2", 0, 100), eng.real_var("a2", -128, 128), eng.real_var("b2", -128, 128))

        if kind == "de":
            def fn():
                mk()
                got = real(A, B)
                want = ref.ciede2000(labs["A"], labs["B"])
                eng.oblige("dE2000 == Sharma-Wu-Dalal reference", close(got, want, Fraction(1, 10 ** 6)))
                eng.oblige("dE2000 >= 0", lift(got) >= 0)
                return got
        else:
            def fn():
                mk()
                got = real(A, B)
                rev = real(B, A)
                # sin is odd (instance axioms for the applications made on this path)
                f = eng.ufs.get(("sin", 1))
                if f is not None:
                    for t in list(eng._sin_args):
                        eng.add_side(f(-t) == -f(t))
                eng.oblige("dE2000 symmetric", close(got, rev, Fraction(1, 10 ** 6)))
                return got
        rk = "de"

    def radicand_help(pr):
        """The final sqrt's domain-error path: pc ends with  tL^2 + tC^2 + tH^2 + RT*tC*tH < 0.  Prove |RT| < 2 on the path (lemma),
        then the path's infeasibility with the four factors abstracted to fresh reals (a 4-variable polynomial fact).  Falls back to
        the plain obligation when the term does not have that shape."""
        try:
            lit = pr.pc[-1]
            rad = _negative_term(lit)
            if rad is None:
                return None
            if not (z3.is_app(rad) and rad.decl().kind() == z3.Z3_OP_ADD):
                return None
            squares, rest = [], []
            for t in rad.children():
                ch = t.children() if (z3.is_app(t) and t.decl().kind() == z3.Z3_OP_MUL) else []
                if len(ch) == 2 and ch[0].get_id() == ch[1].get_id():
                    squares.append(ch[0])
                else:
                    rest.append(t)
            if len(squares) != 3 or len(rest) != 1:
                return None
            sq_ids = {x.get_id() for x in squares}
            # the fourth summand is RT * tC * tH; z3.simplify has flattened it (and pulled the numeric coefficient out), so:
            # flatten the product, take one occurrence of two different squared terms out, what is left multiplies up to RT
            factors, stack = [], [rest[0]]
            while stack:
                t = stack.pop()
                if z3.is_app(t) and t.decl().kind() == z3.Z3_OP_MUL and t.get_id() not in sq_ids:
                    stack.extend(t.children())
                else:
                    factors.append(t)
            inner, others = [], []
            for f in factors:
                if f.get_id() in sq_ids and f.get_id() not in [x.get_id() for x in inner]:
                    inner.append(f)
                else:
                    others.append(f)
            if len(inner) != 2 or not others or len(others) > 8:
                return None
            RT = others[0]
            for f in others[1:]:
                RT = RT * f
            lemma = z3.And(RT > -2, RT < 2)
            name = "never raises (ValueError: final radicand)"
            atoms = [f for f in others if not (z3.is_rational_value(f) or z3.is_int_value(f))]
            abstract = [(x, "q%d" % i) for i, x in enumerate(squares)] + [(x, "f%d" % i) for i, x in enumerate(atoms)]
            # second step: only the literal that entered the raising branch and the lemma, with the three squared terms and the
            # factors of RT replaced by fresh reals: q0^2 + q1^2 + q2^2 + RT*qi*qj < 0 and -2 < RT < 2 has no real solution
            return [("rotation term RT lies in (-2, 2)", lemma, {}),
                    (name, z3.BoolVal(False), {"abstract": abstract, "lemmas": [lemma], "keep": [lit],
                                               "requires": ["rotation term RT lies in (-2, 2)"]})]
        except Exception:
            if os.environ.get("VERIF_TRACE"):
                traceback.print_exc()
            return None

    def on_path(pr):
        if pr.outcome == "exc":
            obl = radicand_help(pr) if isinstance(pr.exc, ValueError) else None
            pr.obligations = obl or [("never raises (%s: %s)" % (type(pr.exc).__name__, str(pr.exc)[:100]), z3.BoolVal(False), {})]
        runner.discharge(ID, job, pr, out, rk, timeout_ms=8000, ext_timeout_s=200)

    eng.explore(fn, on_path, shard=tuple(job["shard"]) if job.get("shard") else None)
    out.d["stats"] = dict(eng.stats)
    return out.d


# ----------------------------------------------------------------- replays

def replay_lab(inp):
    from cm_colors.core.conversions import rgb_to_xyz, xyz_to_lab, rgb_to_lab
    t = (int(inp["tr"]), int(inp["tg"]), int(inp["tb"]))
    xyz = rgb_to_xyz(t)
    lab = rgb_to_lab(t)
    rx = refde.rgb_to_xyz(t)
    rl = refde.rgb_to_lab(t)
    bad = any(abs(a - b) > 0.05 for a, b in zip(xyz, rx)) or any(abs(a - b) > 0.05 for a, b in zip(lab, rl)) or xyz_to_lab(xyz) != lab
    return bad, "rgb_to_xyz(%r)=%r ref %r; rgb_to_lab=%r ref %r" % (t, xyz, rx, lab, rl)


def _de_on_lab(lab1, lab2):
    from cm_colors.core import color_metrics as cm
    orig = cm.rgb_to_lab
    cm.rgb_to_lab = lambda x: lab1 if x == ("A",) else lab2
    try:
        return cm.calculate_delta_e_2000(("A",), ("B",))
    finally:
        cm.rgb_to_lab = orig


def replay_de(inp):
    g = lambda k: float(dec(inp[k], 9))
    lab1 = (g("L1"), g("a1"), g("b1"))
    lab2 = (g("L2"), g("a2"), g("b2"))
    try:
        got = _de_on_lab(lab1, lab2)
        rev = _de_on_lab(lab2, lab1)
    except Exception as e:
        return True, "calculate_delta_e_2000 on Lab %r, %r raised %r" % (lab1, lab2, e)
    want = refde.delta_e_2000(lab1, lab2)
    bad = abs(got - want) > 0.05 or got < 0 or abs(got - rev) > 1e-6 or got != got
    return bad, "dE2000(%r, %r) = %r (reversed %r), reference %r" % (lab1, lab2, got, rev, want)


def _ladder_lab(job):
    from ..ladder import colours
    for t in colours():
        yield dict(tr=t[0], tg=t[1], tb=t[2])


def _ladder_de(job):
    # the 34 published pairs first, then Lab pairs around the hue-wrap / zero-chroma branches
    for p in refde.SHARMA:
        yield dict(L1=Fraction(str(p[0])), a1=Fraction(str(p[1])), b1=Fraction(str(p[2])), L2=Fraction(str(p[3])), a2=Fraction(str(p[4])), b2=Fraction(str(p[5])))
    import itertools
    import math as _m
    # hue-wrap straddling pairs: |h2 - h1| just below / above 180 and near 360, low to high chroma, mean hue swept
    for c, c2 in ((8, 20), (35, 60), (80, 40), (120, 120)):
        for h1 in range(0, 360, 15):
            for dh in (170, 180, 181, 185, 200, 270, 340, 355):
                h2 = (h1 + dh) % 360
                p = (50, c * _m.cos(_m.radians(h1)), c * _m.sin(_m.radians(h1)))
                q = (55, c2 * _m.cos(_m.radians(h2)), c2 * _m.sin(_m.radians(h2)))
                yield dict(L1=Fraction(p[0]), a1=Fraction(p[1]).limit_denominator(10 ** 6), b1=Fraction(p[2]).limit_denominator(10 ** 6),
                           L2=Fraction(q[0]), a2=Fraction(q[1]).limit_denominator(10 ** 6), b2=Fraction(q[2]).limit_denominator(10 ** 6))
    pts = [(50, 0, 0), (50, 20, 0), (50, -20, 0), (50, 0, 20), (50, 0, -20), (30, 15, -15), (70, -15, 15), (50, 20, -1), (50, 20, 1), (90, -5, -40), (10, 40, 30)]
    for p, q in itertools.permutations(pts, 2):
        yield dict(L1=Fraction(p[0]), a1=Fraction(p[1]), b1=Fraction(p[2]), L2=Fraction(q[0]), a2=Fraction(q[1]), b2=Fraction(q[2]))


REPLAYS = {"lab": replay_lab, "de": replay_de}
LADDER = {"lab": _ladder_lab, "de": _ladder_de}


def validate_reference():
    """translator validation of the reference itself: the 34 published pairs (Sharma, Wu, Dalal 2005, Table 1)"""
    worst = 0.0
    for p in refde.SHARMA:
        worst = max(worst, abs(refde.delta_e_2000(p[:3], p[3:6]) - p[6]))
        worst = max(worst, abs(float(ref.ciede2000(p[:3], p[3:6])) - p[6]))
    return worst


def main(tier, seed):
    w = validate_reference()
    if w > 1e-4:
        print("HARNESS-ERROR reference CIEDE2000 deviates from the published pairs by %r" % w)
        return 2
    m = dict(META)
    m["extra_coverage"] = {"reference_validation": "34 published Lab pairs, max |reference - published| = %.2e (table printed to 4 decimals)" % w}
    return runner.main(ID, __name__, jobs(tier), tier, seed, m)
