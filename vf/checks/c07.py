"""C07 -- CSS colour values parse to the colour CSS defines."""
from fractions import Fraction

import z3

from .. import ref, repo, runner, symx
from ..harness import EPS, close, conj, dec, eq_rgb, implies, is_valid8, load_core
from ..symx import SBool, SNum, SymRGB, pre_round, sbool

ID = "C07"
HALF = Fraction(1, 2)

RGB_INT = ["rgb({a}, {b}, {c})", "RGB({a},{b},{c})", "  rgb( {a} , {b} , {c} )  ", "Rgb({a} ,{b}, {c})"]
RGB_PCT = ["rgb({a}%, {b}%, {c}%)", "RGB({a}%,{b}%,{c}%)", " rgb( {a}% , {b}% , {c}% ) "]
RGBA_INT = ["rgba({a}, {b}, {c}, {d})", "RGBA({a},{b},{c},{d})", "rgba( {a} , {b} , {c} , {d} )"]
RGBA_PCT = ["rgba({a}%, {b}%, {c}%, {d})"]
HSL = ["hsl({a}, {b}%, {c}%)", "HSL({a},{b}%,{c}%)", " hsl( {a} , {b}% , {c}% ) ", "Hsl({a} ,{b}%, {c}%)"]
HSLA = ["hsla({a}, {b}%, {c}%, {d})", "HSLA({a},{b}%,{c}%,{d})", "hsla( {a} , {b}% , {c}% , {d} )"]

META = dict(
    explanation=(
        "symx runs the real parse_color_to_rgb (and hsl_to_rgb / hsla_to_rgb / rgba_to_rgb / _parse_number_token behind it) on "
        "CSS strings whose numerals are symbolic tokens inside concrete spelling templates (case / whitespace / separator "
        "variants); components are symbolic 8-bit ints, real percentages in [0,100], real hue in [-720,1080], real alpha in "
        "[0,1], symbolic background.  On every feasible path z3 compares the result with the CSS Color 3 algorithm "
        "(reference executed under the same engine): opaque forms within 1/2 (nearest 8-bit value, ties accept both), "
        "translucent forms within 1.5 of the exact source-over blend; equivalent spellings must give identical terms; "
        "3-tuples/lists of 8-bit ints parse to themselves; the 148 keywords are ground obligations against an independent table."),
    functions=["color_parser.parse_color_to_rgb", "color_parser._parse_number_token", "color_parser._extract_number_tokens",
               "conversions.hsl_to_rgb", "conversions.hsla_to_rgb", "conversions.rgba_to_rgb", "conversions._parse_hue",
               "conversions._parse_hsl_percentage_or_decimal", "conversions.hex_to_rgb (keywords, ground)", "named_colors.CSS_NAMED_COLORS"],
    bounds=["8-bit ints 0..255 (complete); percentages: all reals in [0,100]; hue: all reals in [-720,1080]; alpha: all reals in [0,1]; "
            "background: any opaque 8-bit colour or absent",
            "spelling dimension: the finite template list in vf/checks/c07.py (case, whitespace, comma variants), numerals symbolic",
            "real-arithmetic model of doubles, guard band 1e-9"],
    outside=["numerals in scientific notation / CSS4 space-separated syntax", "decimal-literal -> double rounding (assumed identity on the value)",
             "hex strings: symbolic digits cannot pass str slicing/int(s,16); decided only by the bounded CrossHair clause (C06/C07 hex, see DESIGN)"],
    trusted=["z3/cvc5", "vf/ref.py CSS Color 3 reference", "tinycss2.color3 keyword table (reference for keywords)"],
    assumptions=["float(str) of a plain decimal numeral denotes the numeral's value"],
    stubs=["numerals inside strings are opaque tokens mapped back by injected float()/int() and a wrapped _NUM_RE.findall"],
)


def jobs(tier):
    js = []
    for i, t in enumerate(RGB_INT):
        js.append(dict(kind="rgb-int", tpl=t, base=RGB_INT[0]))
    for t in RGB_PCT:
        js.append(dict(kind="rgb-pct", tpl=t, base=RGB_PCT[0]))
    for t in RGBA_INT:
        for bg in ("none", "sym"):
            js.append(dict(kind="rgba-int", tpl=t, bg=bg, base=RGBA_INT[0]))
    for t in RGBA_PCT:
        for bg in ("none", "sym"):
            js.append(dict(kind="rgba-pct", tpl=t, bg=bg, base=RGBA_PCT[0]))
    for t in HSL:
        js.append(dict(kind="hsl", tpl=t, base=HSL[0]))
    for t in HSLA:
        for bg in ("none", "sym"):
            js.append(dict(kind="hsla", tpl=t, bg=bg, base=HSLA[0]))
    js.append(dict(kind="tuple", shape="tuple"))
    js.append(dict(kind="tuple", shape="list"))
    js.append(dict(kind="keywords"))
    js.append(dict(kind="numre"))
    return js


def _nearest(eng, name, out, exact255, tol=HALF):
    """obligations: each output channel is an int within tol(+eps) of the exact value (0..255 scale)"""
    for ch, (o, e) in zip("rgb", zip(out, exact255)):
        o = symx.lift(o)
        weak = close(o, e, tol + EPS)
        x = pre_round(eng, o)
        if x is not None and tol == HALF:
            eng.oblige("%s %s nearest" % (name, ch), close(x, e, EPS), fallback=weak.e)
        else:
            eng.oblige("%s %s nearest" % (name, ch), weak)


def hsla_obligations(eng, got, h, s_, l_, d, bgcol, name):
    """translucent hsl: each channel within 1.5 of the exact source-over blend, proved via a stage lemma (opaque hsl stage
    pre-rounding value == CSS) and an abstraction of the cubic terms (see runner.discharge 'abstract')"""
    exact = [x * 255 for x in ref.css_hsl_exact(h, s_ / 100, l_ / 100)]
    blend = ref.source_over(exact, d, bgcol)
    # the round() calls of the opaque hsl stage: those whose argument mentions the hsl numerals (other roundings on the path,
    # e.g. of a float background, do not); the achromatic branch rounds ONE term for all three channels
    from ..runner import _symbols
    hv = set()
    for q in (h, s_, l_):
        hv |= set(_symbols(symx.lift(q).real()))
    cand = [x for x in eng.round_log.values() if _symbols(x) & hv]
    if len(cand) >= 3:
        stage = [SNum(x) for x in cand[-3:]]
    elif len(cand) == 1:
        stage = [SNum(cand[0])] * 3
    else:
        stage = None
    abstract, lemmas, req = [], [], []
    if stage is not None:
        for ch, x, e in zip("rgb", stage, exact):
            nm = "%s stage %s: opaque hsl pre-rounding value == CSS" % (name, ch)
            eng.oblige(nm, close(x, e, EPS))
            req.append(nm)
            abstract += [(x.real(), "x" + ch), (symx.lift(e).real(), "e" + ch)]
            lemmas.append(close(x, e, EPS).e)
            lemmas.append(conj(symx.lift(e) >= -EPS, symx.lift(e) <= 255 + EPS).e)
            eng.oblige("%s stage %s: CSS value in [0,255]" % (name, ch), conj(symx.lift(e) >= -EPS, symx.lift(e) <= 255 + EPS))
            req.append("%s stage %s: CSS value in [0,255]" % (name, ch))
    for ch, (o, e) in zip("rgb", zip(got, blend)):
        eng.oblige("%s %s within 1.5 of source-over" % (name, ch), close(symx.lift(o), e, Fraction(3, 2) + EPS),
                   abstract=abstract, lemmas=lemmas, requires=req)
    return exact


CSS_NUMBER = r"[+-]?(\d+|\d*\.\d+)"      # CSS Color 3 / CSS 2.1 number token, plain decimal notation (no exponent)


def _numre_job(job, out, check_id=None):
    """E3 lemma over ALL strings: every CSS number (and percentage) is matched completely by the parser's numeral pattern, which
    is what the token abstraction of the other jobs assumes ('a numeral is extracted whole')."""
    from .. import rx
    m = load_core(inject=False)
    pat = m.color_parser._NUM_RE.pattern
    s = z3.String("numeral")
    out.d["paths"] = 1
    for nm, lang in (("number", CSS_NUMBER), ("percentage", CSS_NUMBER + "%")):
        name = "every CSS %s in plain decimal notation is matched whole by _NUM_RE" % nm
        out.d["obligations"] += 1
        out.d["names"][name] = 1
        sol = z3.Solver()
        sol.set("timeout", 60000)
        sol.add(z3.InRe(s, rx.to_z3(lang)), z3.Not(z3.InRe(s, rx.to_z3(pat))), z3.Length(s) <= 6)
        r = sol.check()
        out.d["queries"] += 1
        if r == z3.unsat:
            # the length bound only shortens witnesses; the unbounded query must be unsat too
            sol2 = z3.Solver()
            sol2.set("timeout", 60000)
            sol2.add(z3.InRe(s, rx.to_z3(lang)), z3.Not(z3.InRe(s, rx.to_z3(pat))))
            r = sol2.check()
            out.d["queries"] += 1
        if r == z3.unsat:
            out.d["discharged"] += 1
            out.sample({"obligation": name, "verdict": "unsat", "pattern": pat, "language": lang})
            continue
        if r == z3.unknown:
            out.d["unknown"] += 1
            out.d["inconclusive"].append({"obligation": name, "why": "unknown", "job": job})
            continue
        wit = sol.model()[s].as_string()
        inp = {"numeral": wit, "_job": job, "_obligation": name}
        rp = runner.write_replay(check_id or ID, "numre", inp, note=name)
        ok, detail = runner.run_replay(rp)
        if ok:
            out.d["violations"].append({"obligation": name, "replay": rp, "inputs": {"numeral": wit}, "detail": detail[-1500:], "kind": "numre", "job": job})
            out.d["sat"] += 1
        else:
            out.d["unknown"] += 1
            out.d["inconclusive"].append({"obligation": name, "why": "unreproduced", "witness": wit, "job": job})


def run_job(job):
    if job["kind"] == "numre":
        out = runner.JobOut(job)
        _numre_job(job, out)
        return out.d
    m = load_core()
    parser = m.color_parser
    eng = symx.Engine()
    out = runner.JobOut(job)
    kind = job["kind"]

    def bgval():
        if job.get("bg") == "sym":
            return eng.rgb_var("bg")
        return None

    if kind == "rgb-int":
        def fn():
            a, b, c = (eng.int_var(n, 0, 255) for n in "abc")
            s = job["tpl"].format(a=a, b=b, c=c)
            got = parser.parse_color_to_rgb(s)
            eng.oblige("valid 8-bit", is_valid8(got))
            eng.oblige("rgb() ints parse to themselves", eq_rgb(got, (a, b, c)))
            if job["tpl"] != job["base"]:
                eng.oblige("equivalent spelling identical", eq_rgb(got, parser.parse_color_to_rgb(job["base"].format(a=a, b=b, c=c))))
            return got
    elif kind == "rgb-pct":
        def fn():
            a, b, c = (eng.real_var(n, 0, 100) for n in "abc")
            s = job["tpl"].format(a=a, b=b, c=c)
            got = parser.parse_color_to_rgb(s)
            eng.oblige("valid 8-bit", is_valid8(got))
            _nearest(eng, "rgb(%)", got, [x * 255 / 100 for x in (a, b, c)])
            if job["tpl"] != job["base"]:
                eng.oblige("equivalent spelling identical", eq_rgb(got, parser.parse_color_to_rgb(job["base"].format(a=a, b=b, c=c))))
            return got
    elif kind in ("rgba-int", "rgba-pct"):
        def fn():
            if kind == "rgba-int":
                a, b, c = (eng.int_var(n, 0, 255) for n in "abc")
                exact = (a, b, c)
            else:
                a, b, c = (eng.real_var(n, 0, 100) for n in "abc")
                exact = tuple(x * 255 / 100 for x in (a, b, c))
            d = eng.real_var("d", 0, 1)
            bg = bgval()
            s = job["tpl"].format(a=a, b=b, c=c, d=d)
            got = parser.parse_color_to_rgb(s, background=bg) if bg is not None else parser.parse_color_to_rgb(s)
            eng.oblige("valid 8-bit", is_valid8(got))
            blend = ref.source_over(exact, d, bg if bg is not None else (255, 255, 255))
            for ch, (o, e) in zip("rgb", zip(got, blend)):
                eng.oblige("rgba %s within 1.5 of source-over" % ch, close(symx.lift(o), e, Fraction(3, 2) + EPS))
            if kind == "rgba-int":
                eng.oblige("alpha 1 gives the colour", implies(d == 1, eq_rgb(got, exact)))
                eng.oblige("alpha 0 gives the background", implies(d == 0, eq_rgb(got, bg if bg is not None else (255, 255, 255))))
            if job["tpl"] != job["base"]:
                s2 = job["base"].format(a=a, b=b, c=c, d=d)
                got2 = parser.parse_color_to_rgb(s2, background=bg) if bg is not None else parser.parse_color_to_rgb(s2)
                eng.oblige("equivalent spelling identical", eq_rgb(got, got2))
            return got
    elif kind == "hsl":
        def fn():
            h = eng.real_var("a", -720, 1080)
            s_, l_ = eng.real_var("b", 0, 100), eng.real_var("c", 0, 100)
            s = job["tpl"].format(a=h, b=s_, c=l_)
            got = parser.parse_color_to_rgb(s)
            eng.oblige("valid 8-bit", is_valid8(got))
            exact = ref.css_hsl_exact(h, s_ / 100, l_ / 100)
            _nearest(eng, "hsl()", got, [x * 255 for x in exact])
            if job["tpl"] != job["base"]:
                eng.oblige("equivalent spelling identical", eq_rgb(got, parser.parse_color_to_rgb(job["base"].format(a=h, b=s_, c=l_))))
            return got
    elif kind == "hsla":
        def fn():
            h = eng.real_var("a", -720, 1080)
            s_, l_ = eng.real_var("b", 0, 100), eng.real_var("c", 0, 100)
            d = eng.real_var("d", 0, 1)
            bg = bgval()
            s = job["tpl"].format(a=h, b=s_, c=l_, d=d)
            got = parser.parse_color_to_rgb(s, background=bg) if bg is not None else parser.parse_color_to_rgb(s)
            eng.oblige("valid 8-bit", is_valid8(got))
            hsla_obligations(eng, got, h, s_, l_, d, bg if bg is not None else (255, 255, 255), "hsla")
            if job["tpl"] != job["base"]:
                s2 = job["base"].format(a=h, b=s_, c=l_, d=d)
                got2 = parser.parse_color_to_rgb(s2, background=bg) if bg is not None else parser.parse_color_to_rgb(s2)
                eng.oblige("equivalent spelling identical", eq_rgb(got, got2))
            return got
    elif kind == "tuple":
        def fn():
            a, b, c = (eng.int_var(n, 0, 255) for n in "abc")
            v = (a, b, c) if job["shape"] == "tuple" else [a, b, c]
            got = parser.parse_color_to_rgb(v)
            eng.oblige("valid 8-bit", is_valid8(got))
            eng.oblige("3 ints parse to themselves", eq_rgb(got, (a, b, c)))
            return got
    elif kind == "keywords":
        table = ref.css_keywords()

        def fn():
            impl = getattr(m.color_parser, "CSS_NAMED_COLORS")
            eng.oblige("keyword count", sbool(set(k.lower() for k in impl) >= set(table)))
            for k, want in sorted(table.items()):
                for spelled in (k, k.upper(), " " + k.capitalize() + " "):
                    try:
                        got = parser.parse_color_to_rgb(spelled)
                    except Exception as e:  # noqa
                        got = None
                    ok = got is not None and tuple(got) == want
                    # ground obligation (finite table: enumeration discharged by the solver, not symbolic)
                    g = z3.And(*[z3.IntVal(int(x)) == z3.IntVal(w) for x, w in zip(got, want)]) if got is not None and len(got) == 3 else z3.BoolVal(False)
                    eng.oblige("keyword %s" % k, SBool(g), extra={"keyword": spelled})
            return None
    else:
        raise ValueError(kind)

    def on_path(pr):
        if pr.outcome == "exc":
            pr.obligations = [("accepted without exception (%s: %s)" % (type(pr.exc).__name__, str(pr.exc)[:100]), z3.BoolVal(False), {})]
        runner.discharge(ID, job, pr, out, kind)

    eng.explore(fn, on_path)
    out.d["stats"] = dict(eng.stats)
    return out.d


# ----------------------------------------------------------------- replays

def _fmt(job, inp):
    vals = {}
    for k in "abcd":
        if k in inp:
            vals[k] = dec(inp[k])
    return job["tpl"].format(**vals), job["base"].format(**vals), {k: float(dec(inp[k])) for k in "abcd" if k in inp}


def _bg(job, inp):
    if job.get("bg") == "sym":
        return (int(inp["bgr"]), int(inp["bgg"]), int(inp["bgb"]))
    return None


def replay_generic(inp):
    from cm_colors.core.color_parser import parse_color_to_rgb
    job = inp["_job"]
    kind = job["kind"]
    if kind == "tuple":
        v = (int(inp["a"]), int(inp["b"]), int(inp["c"]))
        arg = v if job["shape"] == "tuple" else list(v)
        try:
            got = parse_color_to_rgb(arg)
        except Exception as e:
            return True, "parse_color_to_rgb(%r) raised %r" % (arg, e)
        return tuple(got) != v, "parse_color_to_rgb(%r) = %r" % (arg, got)
    if kind == "keywords":
        kw = inp["_extra"]["keyword"]
        want = ref.css_keywords()[kw.strip().lower()]
        try:
            got = parse_color_to_rgb(kw)
        except Exception as e:
            return True, "keyword %r raised %r" % (kw, e)
        return tuple(got) != want, "keyword %r -> %r, CSS defines %r" % (kw, got, want)
    s, sbase, v = _fmt(job, inp)
    bg = _bg(job, inp)
    try:
        got = parse_color_to_rgb(s, background=bg) if bg is not None else parse_color_to_rgb(s)
        got2 = parse_color_to_rgb(sbase, background=bg) if bg is not None else parse_color_to_rgb(sbase)
    except Exception as e:
        return True, "parse_color_to_rgb(%r, background=%r) raised %r" % (s, bg, e)
    detail = "parse_color_to_rgb(%r, background=%r) = %r; base spelling %r -> %r" % (s, bg, got, sbase, got2)
    bad = False
    if not (isinstance(got, tuple) and len(got) == 3 and all(isinstance(x, int) and 0 <= x <= 255 for x in got)):
        return True, detail + " : not a valid 8-bit colour"
    if got != got2:
        bad = True
    if kind == "rgb-int":
        exact = (v["a"], v["b"], v["c"])
        tol = 0
    elif kind == "rgb-pct":
        exact = tuple(v[k] * 255 / 100 for k in "abc")
        tol = 0.5 + 1e-9
    elif kind in ("rgba-int", "rgba-pct"):
        c = (v["a"], v["b"], v["c"]) if kind == "rgba-int" else tuple(v[k] * 255 / 100 for k in "abc")
        exact = ref.source_over(c, v["d"], bg or (255, 255, 255))
        tol = 1.5 + 1e-9
    elif kind == "hsl":
        exact = tuple(255 * x for x in ref.css_hsl_exact(v["a"], v["b"] / 100, v["c"] / 100))
        tol = 0.5 + 1e-9
    elif kind == "hsla":
        c = tuple(255 * x for x in ref.css_hsl_exact(v["a"], v["b"] / 100, v["c"] / 100))
        exact = ref.source_over(c, v["d"], bg or (255, 255, 255))
        tol = 1.5 + 1e-9
    if any(abs(g - e) > tol for g, e in zip(got, exact)):
        bad = True
    if kind == "rgba-int" and v["d"] == 1 and got != (int(v["a"]), int(v["b"]), int(v["c"])):
        bad = True
    if kind == "rgba-int" and v["d"] == 0 and got != (bg or (255, 255, 255)):
        bad = True
    return bad, detail + "; CSS-defined exact value %r (tolerance %s)" % (tuple(round(e, 6) for e in exact), tol)


def replay_numre(inp):
    """the witness numeral inside real CSS values, judged against the CSS-defined colour"""
    from cm_colors.core.color_parser import parse_color_to_rgb
    n = inp["numeral"]
    bad = []
    try:
        v = float(n.rstrip("%"))
    except ValueError:
        return False, "witness %r is not a number" % n
    cases = []
    if n.endswith("%"):
        if 0 <= v <= 100:
            cases.append(("rgb(%s, 0%%, 0%%)" % n, (v * 2.55, 0, 0), 0.5))
            cases.append(("hsl(0, 100%%, %s)" % n, tuple(255 * x for x in ref.css_hsl_exact(0, 1.0, v / 100)), 0.5))
    else:
        if 0 <= v <= 1:
            cases.append(("rgba(0, 0, 0, %s)" % n, tuple(255 * (1 - v) for _ in range(3)), 1.5))
        if 0 <= v <= 255 and float(v).is_integer():
            cases.append(("rgb(%s, 0, 0)" % n, (v, 0, 0), 0.0))
        cases.append(("hsl(%s, 100%%, 50%%)" % n, tuple(255 * x for x in ref.css_hsl_exact(v, 1.0, 0.5)), 0.5))
    for s, want, tol in cases:
        try:
            got = parse_color_to_rgb(s)
        except Exception as e:
            bad.append("%s raised %r" % (s, e))
            continue
        if any(abs(g - w) > tol + 1e-9 for g, w in zip(got, want)):
            bad.append("%s -> %r, CSS defines %r" % (s, got, tuple(round(w, 3) for w in want)))
    return bool(bad), "numeral %r: %s" % (n, "; ".join(bad) or "all readings correct")


REPLAYS = {k: replay_generic for k in ("rgb-int", "rgb-pct", "rgba-int", "rgba-pct", "hsl", "hsla", "tuple", "keywords")}
REPLAYS["numre"] = replay_numre


def main(tier, seed):
    rc = runner.main(ID, __name__, jobs(tier), tier, seed, META)
    if rc == 1:
        return rc
    import os
    from .. import e2
    harness = os.path.join(os.path.dirname(os.path.dirname(os.path.abspath(__file__))), "e2h", "hex_harness.py")
    rc2 = e2.run_extra(ID, harness, tier, label="hex_clause_crosshair")
    return 1 if rc2 == 1 else (2 if 2 in (rc, rc2) else 0)
