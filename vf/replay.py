"""Replay dispatcher: runs a concrete counterexample on the unmodified real code.

Used by the generated scripts under /verif/replays/.  No namespace injection happens in
this process; the library is imported as any user would import it.
"""
import importlib
import os
import sys


def run(check_id, kind, inputs):
    from . import repo  # noqa: sets sys.path to REPO/src
    from .runner import unjson
    repo.load("cm_colors")
    mod = importlib.import_module("vf.checks.%s" % check_id.lower())
    fn = mod.REPLAYS[kind]
    try:
        violated, detail = fn(unjson(inputs))
    except Exception:
        # a crash of the REPLAY HARNESS is not a reproduction (python would exit 1, which means 'reproduced' here)
        import traceback
        traceback.print_exc()
        print("REPLAY-HARNESS-ERROR")
        return 3
    print("replay %s/%s inputs=%s" % (check_id, kind, {k: v for k, v in inputs.items() if not k.startswith("_")}))
    print(detail)
    print("REPRODUCED" if violated else "not reproduced")
    return 1 if violated else 0
