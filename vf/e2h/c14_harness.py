"""CrossHair contract functions for C14: invalid colour input is reported, never raised.

Each prop_* returns True iff the property holds for its arguments; the PEP316 postcondition is `_`.
Only `Exception` is caught: CrossHair's own path-steering exceptions derive from BaseException.
"""
import os
import sys
from typing import List, Optional, Tuple, Union

sys.path.insert(0, os.path.join(os.environ.get("VERIF_REPO", "/repo"), "src"))

from cm_colors import Color, ColorPair, make_readable_bulk  # noqa: E402

Elem = Union[int, float, str, None, bool]


def _color_ok(x) -> bool:
    try:
        c = Color(x)
        valid = c.is_valid
        rgb = c.rgb
        err = c.error
    except Exception:
        return False
    if valid:
        return (isinstance(rgb, tuple) and len(rgb) == 3
                and all(isinstance(v, int) and not isinstance(v, bool) and 0 <= v <= 255 for v in rgb))
    return rgb is None and isinstance(err, str) and len(err) > 0


def _pair_ok(x, y) -> bool:
    try:
        p = ColorPair(x, y)
        if p.is_valid:
            return _color_ok(x) or True
        if p.is_readable != "Not Readable":
            return False
        if p.make_readable() != (None, False):
            return False
        if not p.errors or not all(isinstance(e, str) and e for e in p.errors):
            return False
        out = make_readable_bulk([(x, y), ("#000000", "#ffffff")])
        if len(out) != 2 or out[0][1] in ("readable", "very readable") or out[0][0] is not x:
            return False
        return out[1] == ("#000000", "very readable")
    except Exception:
        return False


def prop_str(s: str) -> bool:
    """
    pre: len(s) <= 5
    post: _
    """
    return _color_ok(s)


def prop_str_hsl(s: str) -> bool:
    """
    pre: len(s) <= 3
    post: _
    """
    return _color_ok("hsl(" + s + ")") and _color_ok("hsla(" + s + ")")


def prop_str_hsl_commas(a: str, b: str, c: str) -> bool:
    """
    pre: len(a) <= 2 and len(b) <= 2 and len(c) <= 2
    post: _
    """
    return _color_ok("hsl(" + a + "," + b + "," + c + ")") and _color_ok("hsla(" + a + "," + b + "," + c + ",1)")


def prop_str_rgb(s: str) -> bool:
    """
    pre: len(s) <= 3
    post: _
    """
    return _color_ok("rgb(" + s + ")") and _color_ok("rgba(" + s + ")") and _color_ok("rgb(" + s)


def prop_str_rgb_commas(a: str, b: str, c: str) -> bool:
    """
    pre: len(a) <= 2 and len(b) <= 2 and len(c) <= 2
    post: _
    """
    return _color_ok("rgb(" + a + "," + b + "," + c + ")") and _color_ok(a + "," + b + "," + c) and _color_ok("rgba(" + a + "," + b + "," + c + ",0.5)")


def prop_str_misc(s: str) -> bool:
    """
    pre: len(s) <= 3
    post: _
    """
    return (_color_ok("#" + s) and _color_ok(s + "%") and _color_ok("var(" + s + ")") and _color_ok("(" + s + ")")
            and _color_ok(s + " " + s) and _color_ok("-" + s) and _color_ok(s + "e9"))


def prop_tuple0() -> bool:
    """
    post: _
    """
    return _color_ok(()) and _color_ok([])


def prop_tuple1(a: Elem) -> bool:
    """
    post: _
    """
    return _color_ok((a,)) and _color_ok([a])


def prop_tuple2(a: Elem, b: Elem) -> bool:
    """
    post: _
    """
    return _color_ok((a, b)) and _color_ok([a, b])


def prop_tuple3(a: Elem, b: Elem, c: Elem) -> bool:
    """
    post: _
    """
    return _color_ok((a, b, c))


def prop_list3(a: Elem, b: Elem, c: Elem) -> bool:
    """
    post: _
    """
    return _color_ok([a, b, c])


def prop_tuple4(a: Elem, b: Elem, c: Elem, d: Elem) -> bool:
    """
    post: _
    """
    return _color_ok((a, b, c, d))


def prop_list4(a: Elem, b: Elem, c: Elem, d: Elem) -> bool:
    """
    post: _
    """
    return _color_ok([a, b, c, d])


def prop_tuple5(a: Elem, b: Elem, c: Elem, d: Elem, e: Elem) -> bool:
    """
    post: _
    """
    return _color_ok((a, b, c, d, e)) and _color_ok([a, b, c, d, e])


def prop_tuple4_with_bg(a: Elem, b: Elem, c: Elem, d: Elem, bg: Tuple[int, int, int]) -> bool:
    """
    post: _
    """
    return _pair_ok((a, b, c, d), bg)


def prop_pair_str(s: str, t: str) -> bool:
    """
    pre: len(s) <= 3 and len(t) <= 3
    post: _
    """
    return _pair_ok(s, t) and _pair_ok("#000", t) and _pair_ok(s, "#fff")


def prop_pair_tuple3(a: Elem, b: Elem, c: Elem) -> bool:
    """
    post: _
    """
    return _pair_ok((a, b, c), "#ffffff") and _pair_ok("#000000", (a, b, c))


def prop_float_special(k: int) -> bool:
    """
    pre: 0 <= k < 6
    post: _
    """
    specials = [float("nan"), float("inf"), float("-inf"), -0.0, 1e308, -1e-308]
    v = specials[k]
    return (_color_ok((v, 0, 0)) and _color_ok((0, v, 0)) and _color_ok((0.5, v, v)) and _color_ok((v, v, v, v))
            and _color_ok((10, 20, 30, v)) and _color_ok((200, v, 0.5)) and _color_ok([v, 0.5, 0.5, 0.5]))
