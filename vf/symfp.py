"""IEEE-754 binary64 twin of the symx proxies (round-nearest-even, bit exact with CPython for
+ - * / abs neg comparisons and int->float).  Used for the kernels where rounding IS the question.

Forking goes through the same Engine (SBool.__bool__), the terms are z3 FP terms, the inputs are
8-bit bit-vectors.  Unsupported operations raise loudly.
"""
from __future__ import annotations

import builtins

import z3

from . import symx
from .symx import SBool, Unsupported, cur

F64 = z3.Float64()
RNE = z3.RNE()
_float = builtins.float
_int = builtins.int
_isinstance = builtins.isinstance


def fpv(x):
    return z3.FPVal(_float(x), F64)


class SFP:
    __slots__ = ("t",)

    def __init__(self, t):
        self.t = t

    @staticmethod
    def lift(x):
        if _isinstance(x, SFP):
            return x
        if _isinstance(x, SBV8):
            return x.to_fp()
        if _isinstance(x, bool):
            return SFP(fpv(_int(x)))
        if _isinstance(x, (_int, _float)):
            if _isinstance(x, _int) and abs(x) > 2 ** 53:
                raise Unsupported("large int in FP arithmetic")
            return SFP(fpv(x))
        return None

    def _bin(self, o, f, swap=False):
        b = SFP.lift(o)
        if b is None:
            return NotImplemented
        a = self
        if swap:
            a, b = b, a
        return SFP(f(RNE, a.t, b.t))

    def __add__(self, o):
        return self._bin(o, z3.fpAdd)

    def __radd__(self, o):
        return self._bin(o, z3.fpAdd, True)

    def __sub__(self, o):
        return self._bin(o, z3.fpSub)

    def __rsub__(self, o):
        return self._bin(o, z3.fpSub, True)

    def __mul__(self, o):
        return self._bin(o, z3.fpMul)

    def __rmul__(self, o):
        return self._bin(o, z3.fpMul, True)

    def __truediv__(self, o):
        b = SFP.lift(o)
        if b is None:
            return NotImplemented
        eng = cur()
        nz = z3.Not(z3.fpIsZero(b.t))   # kept unsimplified so that b.t stays a sub-term (abstraction relies on it)
        nzs = z3.simplify(nz)
        if z3.is_false(nzs):
            raise ZeroDivisionError("float division by zero")
        if not z3.is_true(nzs):
            # safety obligation instead of a fork: on this path the denominator must be non-zero
            eng.obligations.append(("no ZeroDivisionError: denominator != 0 (IEEE-754)", nz, {"fp": True}))
            eng.add_side(nz)
        return SFP(z3.fpDiv(RNE, self.t, b.t))

    def __rtruediv__(self, o):
        a = SFP.lift(o)
        if a is None:
            return NotImplemented
        return a.__truediv__(self)

    def __mod__(self, o):
        # python's float % is not an SMT-LIB operation; result modelled as ANY double in [0, m] (m > 0 constant)
        if not _isinstance(o, (_int, _float)) or o <= 0:
            raise Unsupported("float % symbolic")
        eng = cur()
        v = z3.FP("fmod!%d" % (eng.counter + 1), F64)
        eng.counter += 1
        eng.add_side(z3.And(z3.fpGEQ(v, fpv(0.0)), z3.fpLEQ(v, fpv(o))))
        eng.notes.append("float %% %r modelled as any double in [0,%r]" % (o, o))
        return SFP(v)

    def __neg__(self):
        return SFP(z3.fpNeg(self.t))

    def __pos__(self):
        return self

    def __abs__(self):
        return SFP(z3.fpAbs(self.t))

    def _cmp(self, o, f):
        b = SFP.lift(o)
        if b is None:
            return NotImplemented
        return SBool(f(self.t, b.t))

    def __lt__(self, o):
        return self._cmp(o, z3.fpLT)

    def __le__(self, o):
        return self._cmp(o, z3.fpLEQ)

    def __gt__(self, o):
        return self._cmp(o, z3.fpGT)

    def __ge__(self, o):
        return self._cmp(o, z3.fpGEQ)

    def __eq__(self, o):
        return self._cmp(o, z3.fpEQ)

    def __ne__(self, o):
        r = self._cmp(o, z3.fpEQ)
        return r if r is NotImplemented else SBool(z3.Not(r.e))

    def __hash__(self):
        raise Unsupported("hash of symbolic double")

    def __bool__(self):
        return cur().branch(z3.Not(z3.fpIsZero(self.t)))

    def __float__(self):
        raise Unsupported("builtin float() on symbolic double")

    def __int__(self):
        raise Unsupported("builtin int() on symbolic double")

    def __str__(self):
        return cur().token_for_obj(self)

    __repr__ = __str__

    def __format__(self, spec):
        if spec == "":
            return cur().token_for_obj(self)
        raise Unsupported("format spec on symbolic double")


class SBV8:
    """8-bit unsigned integer input (python int semantics for the operations used)."""

    __slots__ = ("t",)

    def __init__(self, t):
        self.t = t

    def to_fp(self):
        return SFP(z3.fpToFPUnsigned(RNE, z3.ZeroExt(8, self.t), F64))

    def _cmp(self, o, f_bv, f_fp):
        if _isinstance(o, SBV8):
            return SBool(f_bv(self.t, o.t))
        if _isinstance(o, bool):
            o = _int(o)
        if _isinstance(o, _int):
            if 0 <= o <= 255:
                return SBool(f_bv(self.t, z3.BitVecVal(o, 8)))
            # out-of-range constants: decide by python on the bounds
            return SBool(z3.BoolVal(f_fp(0 if o > 255 else 1, 1 if o > 255 else 0)))
        b = SFP.lift(o)
        if b is None:
            return NotImplemented
        return self.to_fp()._cmp(b, {"lt": z3.fpLT, "le": z3.fpLEQ, "gt": z3.fpGT, "ge": z3.fpGEQ, "eq": z3.fpEQ}[f_fp.__name__])

    def __le__(self, o):
        return self._cmp(o, z3.ULE, _le)

    def __lt__(self, o):
        return self._cmp(o, z3.ULT, _lt)

    def __ge__(self, o):
        return self._cmp(o, z3.UGE, _ge)

    def __gt__(self, o):
        return self._cmp(o, z3.UGT, _gt)

    def __eq__(self, o):
        return self._cmp(o, lambda a, b: a == b, _eq)

    def __ne__(self, o):
        r = self.__eq__(o)
        return r if r is NotImplemented else SBool(z3.Not(r.e))

    def __hash__(self):
        raise Unsupported("hash")

    def __truediv__(self, o):
        return self.to_fp() / o

    def __rtruediv__(self, o):
        return SFP.lift(o) / self.to_fp()

    def __mul__(self, o):
        return self.to_fp() * o

    __rmul__ = __mul__

    def __add__(self, o):
        return self.to_fp() + o

    __radd__ = __add__

    def __sub__(self, o):
        return self.to_fp() - o

    def __rsub__(self, o):
        return SFP.lift(o) - self.to_fp()

    def __str__(self):
        return cur().token_for_obj(self)

    __repr__ = __str__

    def __format__(self, spec):
        if spec == "":
            return cur().token_for_obj(self)
        raise Unsupported("format spec on symbolic int")


def _le(a, b):
    return a <= b


_le.__name__ = "le"


def _lt(a, b):
    return a < b


_lt.__name__ = "lt"


def _ge(a, b):
    return a >= b


_ge.__name__ = "ge"


def _gt(a, b):
    return a > b


_gt.__name__ = "gt"


def _eq(a, b):
    return a == b


_eq.__name__ = "eq"


def fmax(*args):
    if len(args) == 1:
        args = tuple(args[0])
    if not any(_isinstance(a, (SFP, SBV8)) for a in args):
        return builtins.max(*args)
    r = SFP.lift(args[0])
    for a in args[1:]:
        a = SFP.lift(a)
        r = SFP(z3.If(z3.fpGT(a.t, r.t), a.t, r.t))
    return r


def fmin(*args):
    if len(args) == 1:
        args = tuple(args[0])
    if not any(_isinstance(a, (SFP, SBV8)) for a in args):
        return builtins.min(*args)
    r = SFP.lift(args[0])
    for a in args[1:]:
        a = SFP.lift(a)
        r = SFP(z3.If(z3.fpLT(a.t, r.t), a.t, r.t))
    return r


def inject_fp(module):
    module.max = fmax
    module.min = fmin


def bv8_var(eng, name):
    v = z3.BitVec(name, 8)
    eng.inputs[name] = v
    return SBV8(v)
