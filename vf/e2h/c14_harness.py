"""CrossHair contract functions for C14: invalid colour input is reported, never raised.

Each prop_* returns True iff the property holds for its arguments; the PEP316 postcondition is `_`.
Only `Exception` is caught: CrossHair's own path-steering exceptions derive from BaseException.
"""
import os
import sys
from typing import List, Optional, Tuple, Union

sys.path.insert(0, os.path.join(os.environ.get("VERIF_REPO", "/repo"), "src"))

from cm_colors import Color, ColorPair, make_readable_bulk  # noqa: E402

Elem = Union[int, float, str, None, bool]


def _color_ok(x) -> bool:
    try:
        c = Color(x)
        valid = c.is_valid
        rgb = c.rgb
        err = c.error
    except Exception:
        return False
    if valid:
        return (isinstance(rgb, tuple) and len(rgb) == 3
                and all(isinstance(v, int) and not isinstance(v, bool) and 0 <= v <= 255 for v in rgb))
    return rgb is None and isinstance(err, str) and len(err) > 0


def _pair_ok(x, y) -> bool:
    try:
        p = ColorPair(x, y)
        if p.is_valid:
            return _color_ok(x) or True
        if p.is_readable != "Not Readable":
            return False
        if p.make_readable() != (None, False):
            return False
        if not p.errors or not all(isinstance(e, str) and e for e in p.errors):
            return False
        out = make_readable_bulk([(x, y), ("#000000", "#ffffff")])
        if len(out) != 2 or out[0][1] in ("readable", "very readable") or out[0][0] is not x:
            return False
        return out[1] == ("#000000", "very readable")
    except Exception:
        return False


def prop_str(s: str) -> bool:
    """
    pre: len(s) <= 5
    post: _
    """
    return _color_ok(s)


def prop_tpl_hsl_open(s: str) -> bool:
    """
    pre: len(s) <= 3
    post: _
    """
    return _color_ok('hsl(' + s + ')')


def prop_tpl_hsla_open(s: str) -> bool:
    """
    pre: len(s) <= 3
    post: _
    """
    return _color_ok('hsla(' + s + ')')


def prop_tpl_hsl_h(s: str) -> bool:
    """
    pre: len(s) <= 3
    post: _
    """
    return _color_ok('hsl(' + s + ',50%,50%)')


def prop_tpl_hsl_s(s: str) -> bool:
    """
    pre: len(s) <= 3
    post: _
    """
    return _color_ok('hsl(120,' + s + ',50%)')


def prop_tpl_hsl_l(s: str) -> bool:
    """
    pre: len(s) <= 3
    post: _
    """
    return _color_ok('hsl(120,50%,' + s + ')')


def prop_tpl_hsla_a(s: str) -> bool:
    """
    pre: len(s) <= 3
    post: _
    """
    return _color_ok('hsla(120,50%,50%,' + s + ')')


def prop_tpl_hsla_h(s: str) -> bool:
    """
    pre: len(s) <= 3
    post: _
    """
    return _color_ok('hsla(' + s + ',50%,50%,0.5)')


def prop_tpl_rgb_open(s: str) -> bool:
    """
    pre: len(s) <= 3
    post: _
    """
    return _color_ok('rgb(' + s + ')')


def prop_tpl_rgba_open(s: str) -> bool:
    """
    pre: len(s) <= 3
    post: _
    """
    return _color_ok('rgba(' + s + ')')


def prop_tpl_rgb_unclosed(s: str) -> bool:
    """
    pre: len(s) <= 3
    post: _
    """
    return _color_ok('rgb(' + s + '')


def prop_tpl_rgb_r(s: str) -> bool:
    """
    pre: len(s) <= 3
    post: _
    """
    return _color_ok('rgb(' + s + ',0,0)')


def prop_tpl_rgb_g(s: str) -> bool:
    """
    pre: len(s) <= 3
    post: _
    """
    return _color_ok('rgb(0,' + s + ',0)')


def prop_tpl_rgba_a(s: str) -> bool:
    """
    pre: len(s) <= 3
    post: _
    """
    return _color_ok('rgba(0,0,0,' + s + ')')


def prop_tpl_informal(s: str) -> bool:
    """
    pre: len(s) <= 3
    post: _
    """
    return _color_ok('1,' + s + ',3')


def prop_tpl_rgb_pct(s: str) -> bool:
    """
    pre: len(s) <= 3
    post: _
    """
    return _color_ok('rgb(' + s + '%,0%,0%)')


def prop_tpl_hash(s: str) -> bool:
    """
    pre: len(s) <= 3
    post: _
    """
    return _color_ok('#' + s + '')


def prop_tpl_percent(s: str) -> bool:
    """
    pre: len(s) <= 3
    post: _
    """
    return _color_ok('' + s + '%')


def prop_tpl_var(s: str) -> bool:
    """
    pre: len(s) <= 3
    post: _
    """
    return _color_ok('var(' + s + ')')


def prop_tpl_paren(s: str) -> bool:
    """
    pre: len(s) <= 3
    post: _
    """
    return _color_ok('(' + s + ')')


def prop_tpl_space(s: str) -> bool:
    """
    pre: len(s) <= 3
    post: _
    """
    return _color_ok('1 ' + s + ' 3')


def prop_tpl_minus(s: str) -> bool:
    """
    pre: len(s) <= 3
    post: _
    """
    return _color_ok('-' + s + '')


def prop_tpl_exp(s: str) -> bool:
    """
    pre: len(s) <= 3
    post: _
    """
    return _color_ok('' + s + 'e9')


def prop_tpl_hex6_a(s: str) -> bool:
    """
    pre: len(s) <= 2
    post: _
    """
    return _color_ok('#' + s + 'ffff')


def prop_tpl_hex6_b(s: str) -> bool:
    """
    pre: len(s) <= 2
    post: _
    """
    return _color_ok('#ff' + s + 'ff')


def prop_tpl_hex6_c(s: str) -> bool:
    """
    pre: len(s) <= 2
    post: _
    """
    return _color_ok('#ffff' + s + '')


def prop_tpl_hex3_a(s: str) -> bool:
    """
    pre: len(s) <= 2
    post: _
    """
    return _color_ok('#' + s + 'f')


def prop_tpl_hex3_b(s: str) -> bool:
    """
    pre: len(s) <= 2
    post: _
    """
    return _color_ok('#f' + s + '')


def prop_tpl_hex6_nohash(s: str) -> bool:
    """
    pre: len(s) <= 2
    post: _
    """
    return _color_ok('' + s + 'abcd')


HEX_ALPHABET = "-+ _.xX#gG%,()\t\n0aF９٠lO§"


def prop_hex_one_char_replaced(pos: int, k: int, three: bool) -> bool:
    """
    One character of a valid hex colour replaced by a character from a fixed alphabet of near-misses (sign, blank,
    underscore, dot, x, #, non-hex letters, full-width and Arabic-Indic digits ...): position and character symbolic.
    pre: 0 <= pos < 6 and 0 <= k < len(HEX_ALPHABET)
    post: _
    """
    base = "a1f" if three else "a1f09c"
    if pos >= len(base):
        return True
    c = HEX_ALPHABET[k]
    s = "#" + base[:pos] + c + base[pos + 1:]
    ok = _color_ok(s) and _color_ok(s[1:])
    if not ok:
        return False
    if c not in "0123456789abcdefABCDEF":
        # a non-hex character can never yield a valid colour
        try:
            if Color(s).is_valid or (Color(s[1:]).is_valid and s[1:].lower() not in ("",)):
                return False
        except Exception:
            return False
    return True


SPECIAL_NUM = ["inf", "-inf", "nan", "Infinity", "1e999", "-1e999", "inf%", "-inf%", "nan%", "1e999%", "9" * 400, "9" * 400 + "%", ".", "-", "+", "e",
               "1e", "%", "%%", "1%%", "0x10", "1_0", " 5 ", "５", "٣", "1e-400", "--1", "1.2.3", "255.5", "-0.0", "1/2",
               "-1", "-0.5", "-1.0", "2", "1.5", "-1e-9", "101%", "-5%", "361", "-361", "256", "-1e308", "1e308"]


def prop_special_numeric_component(k: int, pos: int, four: bool, as_list: bool) -> bool:
    """
    A component spelled as one of a fixed list of odd numeric strings (infinities, nan, overflowing exponents, huge digit
    runs, stray signs/percent signs, non-ASCII digits ...) at a symbolic position of a 3- or 4-element tuple/list and
    inside rgb()/rgba()/hsl() strings: position and spelling symbolic.
    pre: 0 <= k < len(SPECIAL_NUM) and 0 <= pos < 4
    post: _
    """
    s = SPECIAL_NUM[k]
    n = 4 if four else 3
    if pos >= n:
        return True
    items = [10, 20, 30, 0.5][:n]
    items[pos] = s
    t = list(items) if as_list else tuple(items)
    parts = ["10", "20", "30", "0.5"][:n]
    parts[pos] = s
    ok = (_color_ok(t) and _color_ok(("rgba(" if four else "rgb(") + ", ".join(parts) + ")") and _color_ok("hsl(" + s + ", 50%, 50%)")
          and _color_ok("hsl(120, " + s + ", 50%)") and _pair_ok(t, "#ffffff"))
    if not ok:
        return False
    # the same spelling as alpha / lightness of translucent notations and as a float component of all-float 4-tuples
    ok = (_color_ok("hsla(0, 100%, 50%, " + s + ")") and _color_ok("rgba(10, 20, 30, " + s + ")") and _color_ok("hsla(0, 100%, " + s + ", 0.5)")
          and _pair_ok("hsla(0, 100%, 50%, " + s + ")", "#000000"))
    if not ok:
        return False
    try:
        v = float(s)
    except ValueError:
        return True
    ft = [0.0, 1.0, 0.5, 0.5]
    ft[pos] = v
    return _color_ok(tuple(ft)) and _pair_ok(tuple(ft), "#000000")


def prop_tuple0() -> bool:
    """
    post: _
    """
    return _color_ok(()) and _color_ok([])


def prop_tuple1(a: Elem) -> bool:
    """
    post: _
    """
    return _color_ok((a,)) and _color_ok([a])


def prop_tuple2(a: Elem, b: Elem) -> bool:
    """
    post: _
    """
    return _color_ok((a, b)) and _color_ok([a, b])


def prop_tuple3(a: Elem, b: Elem, c: Elem) -> bool:
    """
    post: _
    """
    return _color_ok((a, b, c))


def prop_list3(a: Elem, b: Elem, c: Elem) -> bool:
    """
    post: _
    """
    return _color_ok([a, b, c])


def prop_tuple4(a: Elem, b: Elem, c: Elem, d: Elem) -> bool:
    """
    post: _
    """
    return _color_ok((a, b, c, d))


def prop_list4(a: Elem, b: Elem, c: Elem, d: Elem) -> bool:
    """
    post: _
    """
    return _color_ok([a, b, c, d])


def prop_tuple5(a: Elem, b: Elem, c: Elem, d: Elem, e: Elem) -> bool:
    """
    post: _
    """
    return _color_ok((a, b, c, d, e)) and _color_ok([a, b, c, d, e])


def prop_tuple4_with_bg(a: Elem, b: Elem, c: Elem, d: Elem, bg: Tuple[int, int, int]) -> bool:
    """
    post: _
    """
    return _pair_ok((a, b, c, d), bg)


def prop_pair_str(s: str, t: str) -> bool:
    """
    pre: len(s) <= 3 and len(t) <= 3
    post: _
    """
    return _pair_ok(s, t) and _pair_ok("#000", t) and _pair_ok(s, "#fff")


def prop_pair_tuple3(a: Elem, b: Elem, c: Elem) -> bool:
    """
    post: _
    """
    return _pair_ok((a, b, c), "#ffffff") and _pair_ok("#000000", (a, b, c))


def _special(v) -> bool:
    return (_color_ok((v, 0, 0)) and _color_ok((0, v, 0)) and _color_ok((0.5, v, v)) and _color_ok((v, v, v, v))
            and _color_ok((10, 20, 30, v)) and _color_ok((200, v, 0.5)) and _color_ok([v, 0.5, 0.5, 0.5])
            and _pair_ok((v, v, v), "#fff") and _pair_ok("#000", (1, 2, 3, v)))


def prop_ground_float_specials() -> bool:
    """
    Ground cases (no symbolic argument): CrossHair's real-based symbolic floats do not range over nan/inf.
    post: _
    """
    return all(_special(v) for v in (float("nan"), float("inf"), float("-inf"), -0.0, 1e308, -1e-308, 5e-324))
