"""Reference models, written from the published definitions, independent of the repository.

Every function runs both concretely (python floats: replay oracle) and under symx (proxy
values: the solver compares terms).  Nothing here imports cm_colors.
"""
from fractions import Fraction

from . import symx
from .symx import SymMath, ite, smax, smin

M = SymMath()

# ---------------------------------------------------------------- WCAG 2

def wcag_lin(c):
    """sRGB channel in [0,1] -> linear.  WCAG 2.x text: threshold 0.03928 (sRGB: 0.04045); both
    give the same value on every 8-bit channel (10/255 < 0.03928 < 0.04045 < 11/255)."""
    return ite(c <= 0.03928, c / 12.92, ((c + 0.055) / 1.055) ** 2.4)


def wcag_luminance(rgb):
    r, g, b = [wcag_lin(x / 255.0) for x in rgb]
    return 0.2126 * r + 0.7152 * g + 0.0722 * b


def wcag_ratio_parts(t, b):
    lt, lb = wcag_luminance(t), wcag_luminance(b)
    hi = smax(lt, lb)
    lo = smin(lt, lb)
    return hi + 0.05, lo + 0.05


def wcag_ratio(t, b):
    n, d = wcag_ratio_parts(t, b)
    return n / d


def wcag_min(large, very):
    """required minimum: 4.5 normal, 3.0 large, 7.0 very-readable normal, 4.5 very-readable large"""
    if very:
        return 4.5 if large else 7.0
    return 3.0 if large else 4.5


def wcag_thresholds(large):
    """(AA threshold, AAA threshold)"""
    return (3.0, 4.5) if large else (4.5, 7.0)


def wcag_label(ratio, large):
    aa, aaa = wcag_thresholds(large)
    if ratio >= aaa:
        return "AAA"
    if ratio >= aa:
        return "AA"
    return "FAIL"


# ---------------------------------------------------------------- CSS Color Level 3

def css_hue_to_rgb(m1, m2, h):
    h = ite(h < 0, h + 1, h)
    h = ite(h > 1, h - 1, h)
    return ite(h * 6 < 1, m1 + (m2 - m1) * h * 6,
               ite(h * 2 < 1, m2,
                   ite(h * 3 < 2, m1 + (m2 - m1) * (Fraction(2, 3) - h) * 6, m1)))


def css_hsl_exact(hue_deg, s, l):
    """CSS Color 3 section 4.2.4: (hue in degrees, any real; s, l in [0,1]) -> exact r,g,b in [0,1]."""
    q = M.floor(hue_deg / 360)
    h = hue_deg / 360 - q          # ((hue mod 360) + 360) mod 360, normalised to [0,1)
    m2 = ite(l <= Fraction(1, 2), l * (s + 1), l + s - l * s)
    m1 = l * 2 - m2
    return (css_hue_to_rgb(m1, m2, h + Fraction(1, 3)), css_hue_to_rgb(m1, m2, h), css_hue_to_rgb(m1, m2, h - Fraction(1, 3)))


def source_over(c, alpha, bg):
    """per-channel source-over compositing of an opaque-background blend, all on the 0..255 scale"""
    return tuple(alpha * ci + (1 - alpha) * bi for ci, bi in zip(c, bg))


def nearest8(x):
    """concrete: set of acceptable nearest 8-bit values (ties accept both)"""
    import math
    f = math.floor(x)
    if x - f < 0.5:
        return {f}
    if x - f > 0.5:
        return {f + 1}
    return {f, f + 1}


def css_keywords():
    """148 CSS Color 3 keywords (+ rebeccapurple) -> (r,g,b), from tinycss2's own table (third party, CSS-conformant)."""
    import tinycss2.color3 as c3
    out = {}
    for k, v in c3._COLOR_KEYWORDS.items():
        if k in ("currentcolor", "transparent"):
            continue
        out[k] = (round(v.red * 255), round(v.green * 255), round(v.blue * 255))
    out.setdefault("rebeccapurple", (0x66, 0x33, 0x99))
    return out


# ---------------------------------------------------------------- OKLab / OKLCH (Ottosson 2020), constants typed from the publication
import math as _pm

OK_M1 = ((0.4122214708, 0.5363325363, 0.0514459929),
         (0.2119034982, 0.6806995451, 0.1073969566),
         (0.0883024619, 0.2817188376, 0.6299787005))
OK_M2 = ((0.2104542553, 0.7936177850, -0.0040720468),
         (1.9779984951, -2.4285922050, 0.4505937099),
         (0.0259040371, 0.7827717662, -0.8086757660))
OK_M2_INV = ((1.0, 0.3963377774, 0.2158037573),
             (1.0, -0.1055613458, -0.0638541728),
             (1.0, -0.0894841775, -1.2914855480))
OK_M1_INV = ((4.0767416621, -3.3077115913, 0.2309699292),
             (-1.2684380046, 2.6097574011, -0.3413193965),
             (-0.0041960863, -0.7034186147, 1.7076147010))


def srgb_lin(c):
    """sRGB (IEC 61966-2-1) transfer function, channel in [0,1]"""
    return ite(c <= 0.04045, c / 12.92, ((c + 0.055) / 1.055) ** 2.4)


def cbrt(x):
    """real cube root (sign preserving); x ** (1/3) for x >= 0"""
    return ite(x >= 0, smax(x, 0) ** (1 / 3), -(smax(-x, 0) ** (1 / 3)))


def oklab_from_rgb(rgb):
    r, g, b = [srgb_lin(v / 255.0) for v in rgb]
    lms = [m[0] * r + m[1] * g + m[2] * b for m in OK_M1]
    l_, m_, s_ = [cbrt(v) for v in lms]
    return tuple(m[0] * l_ + m[1] * m_ + m[2] * s_ for m in OK_M2)


def oklab_to_linear(L, a, b):
    """OKLab -> linear sRGB (unclipped)"""
    lms_ = [m[0] * L + m[1] * a + m[2] * b for m in OK_M2_INV]
    lms = [v * v * v for v in lms_]
    return tuple(m[0] * lms[0] + m[1] * lms[1] + m[2] * lms[2] for m in OK_M1_INV)


def srgb_gamma(c):
    """linear -> sRGB transfer function, channel in [0,1]"""
    return ite(c <= 0.0031308, 12.92 * c, 1.055 * (smax(c, 0) ** (1.0 / 2.4)) - 0.055)


# ---------------------------------------------------------------- CIE XYZ / L*a*b* (D65) and CIEDE2000
SRGB_XYZ = ((0.4124564, 0.3575761, 0.1804375),
            (0.2126729, 0.7151522, 0.0721750),
            (0.0193339, 0.1191920, 0.9503041))
D65 = (95.047, 100.000, 108.883)


def xyz_from_rgb(rgb):
    r, g, b = [srgb_lin(v / 255.0) for v in rgb]
    return tuple((r * m[0] + g * m[1] + b * m[2]) * 100 for m in SRGB_XYZ)


def cie_f(t):
    """CIE 1976 f(t) with the customary rounded constants (0.008856, 7.787, 16/116); the exact constants
    ((6/29)^3, 841/108, 4/29) change L*a*b* by < 5e-5, far below the 0.05 tolerance of the property"""
    return ite(t > 0.008856, smax(t, 0) ** (1 / 3), (7.787 * t) + (16 / 116))


def lab_from_xyz(xyz):
    fx, fy, fz = [cie_f(v / w) for v, w in zip(xyz, D65)]
    L = smax(0, smin(100, 116 * fy - 16))
    return (L, 500 * (fx - fy), 200 * (fy - fz))


def hue_deg(b, a):
    """h' in [0,360) of Sharma et al. eq. (7): atan2(b, a') in degrees, +360 when negative; 0 when both are 0.
    Written with python branches: under symx the reference forks jointly with the implementation, so that on every
    joint path both results are straight-line terms (equal by congruence when the code is the CIE formula)."""
    if a == 0 and b == 0:
        return 0
    h = M.atan2(b, a) * 180 / _pm.pi
    if h < 0:
        return h + 360
    return h


def conj_(x, y):
    if isinstance(x, bool) and isinstance(y, bool):
        return x and y
    return symx.sbool(x) & symx.sbool(y)


def disj_(x, y):
    if isinstance(x, bool) and isinstance(y, bool):
        return x or y
    return symx.sbool(x) | symx.sbool(y)


def ciede2000(lab1, lab2):
    """Sharma, Wu, Dalal (2005), eqs. (2)-(22), kL = kC = kH = 1.  Branch-free (If-terms) so that it adds no paths."""
    L1, a1, b1 = lab1
    L2, a2, b2 = lab2
    C1 = M.sqrt(a1 * a1 + b1 * b1)
    C2 = M.sqrt(a2 * a2 + b2 * b2)
    Cb = (C1 + C2) / 2
    Cb7 = Cb ** 7
    G = 0.5 * (1 - M.sqrt(Cb7 / (Cb7 + 25 ** 7)))
    a1p = a1 * (1 + G)
    a2p = a2 * (1 + G)
    C1p = M.sqrt(a1p * a1p + b1 * b1)
    C2p = M.sqrt(a2p * a2p + b2 * b2)
    h1p = hue_deg(b1, a1p)
    h2p = hue_deg(b2, a2p)
    dLp = L2 - L1
    dCp = C2p - C1p
    zero = bool(C1p * C2p == 0)
    d = h2p - h1p
    if zero:
        dhp = 0
    elif d > 180:
        dhp = d - 360
    elif d < -180:
        dhp = d + 360
    else:
        dhp = d
    dHp = 2 * M.sqrt(C1p * C2p) * M.sin(M.radians(dhp / 2))
    Lbp = (L1 + L2) / 2
    Cbp = (C1p + C2p) / 2
    s = h1p + h2p
    if zero:
        hbp = s
    elif -180 <= d <= 180:
        hbp = s / 2
    elif s < 360:
        hbp = (s + 360) / 2
    else:
        hbp = (s - 360) / 2
    T = (1 - 0.17 * M.cos(M.radians(hbp - 30)) + 0.24 * M.cos(M.radians(2 * hbp))
         + 0.32 * M.cos(M.radians(3 * hbp + 6)) - 0.20 * M.cos(M.radians(4 * hbp - 63)))
    dth = 30 * M.exp(-(((hbp - 275) / 25) ** 2))
    Cbp7 = Cbp ** 7
    RC = 2 * M.sqrt(Cbp7 / (Cbp7 + 25 ** 7))
    SL = 1 + (0.015 * ((Lbp - 50) ** 2)) / M.sqrt(20 + ((Lbp - 50) ** 2))
    SC = 1 + 0.045 * Cbp
    SH = 1 + 0.015 * Cbp * T
    RT = -M.sin(M.radians(2 * dth)) * RC
    tL, tC, tH = dLp / SL, dCp / SC, dHp / SH
    return M.sqrt(tL * tL + tC * tC + tH * tH + RT * tC * tH)
