"""symx -- proxy-object symbolic execution of the real cm-colors functions.

The real function objects imported from /repo/src are executed on proxy values
(SNum / SBool / SymRGB) that build z3 terms.  Control flow forks at
``SBool.__bool__``: paths are explored depth-first by re-execution with a
decision prefix; each new decision is checked for feasibility with z3.

Arithmetic is modelled over the reals ("doubles denote the rationals they
are", see DESIGN.md section 0); an IEEE-754 twin (mode='fp') is available for
kernels where rounding is the question.

Control-flow exceptions of the engine derive from BaseException so that the
``except Exception`` handlers in the code under test cannot swallow them.
"""
from __future__ import annotations

import builtins
import fcntl
import json as _json
import math as _math
import os
import re
import time
from fractions import Fraction

import z3

_int = builtins.int
_float = builtins.float
_isinstance = builtins.isinstance
_range = builtins.range
_max = builtins.max
_min = builtins.min
_abs = builtins.abs
_round = builtins.round

INF = _float("inf")


class EngineSignal(BaseException):
    pass


class PathAbort(EngineSignal):
    """Path cut: infeasible, or beyond a stated bound (reason recorded)."""

    def __init__(self, reason="infeasible"):
        super().__init__(reason)
        self.reason = reason


class Unsupported(EngineSignal):
    """An operation the engine does not model was reached: loud, never concretised."""


class Budget(EngineSignal):
    """Exploration budget exhausted (paths or wall time)."""


class Stop(EngineSignal):
    """Stop exploring (e.g. a violation was reproduced; nothing more to learn from this job)."""


CUR = None  # the engine executing right now

# Set by the runner for the job being run (vf/runner.py):
SHARD_KEY = None    # identifies the job up to its shard index: all shards of one job share ONE prefix list (see Engine.shared_prefixes)
SHARD_SEQ = 0       # n-th sharded exploration inside the job
FEAS_SCALE = 1      # a job that ended inconclusive is re-run with longer feasibility budgets (prunes more infeasible paths)


def cur():
    if CUR is None:
        raise Unsupported("no active engine")
    return CUR


# --------------------------------------------------------------------------
# numerals
# --------------------------------------------------------------------------

def frac_of(x):
    if _isinstance(x, bool):
        return Fraction(_int(x))
    if _isinstance(x, _int):
        return Fraction(x)
    if _isinstance(x, _float):
        if x != x or x in (INF, -INF):
            raise Unsupported("non-finite constant %r in arithmetic" % (x,))
        return Fraction(x)
    if _isinstance(x, Fraction):
        return x
    raise Unsupported("cannot lift %r" % (type(x),))


def rv(x):
    f = frac_of(x)
    if f.denominator == 1:
        return z3.RealVal(f.numerator)
    return z3.RealVal("%d/%d" % (f.numerator, f.denominator))


def is_num(x):
    return _isinstance(x, (_int, _float, Fraction)) and not (
        _isinstance(x, _float) and (x != x)
    )


def z3_to_frac(v):
    """z3 numeral -> Fraction (or None for algebraic / non numerals)."""
    if z3.is_int_value(v):
        return Fraction(v.as_long())
    if z3.is_rational_value(v):
        return Fraction(v.numerator_as_long(), v.denominator_as_long())
    if z3.is_algebraic_value(v):
        a = v.approx(30)
        return Fraction(a.numerator_as_long(), a.denominator_as_long())
    return None


# --------------------------------------------------------------------------
# proxies
# --------------------------------------------------------------------------

class SBool:
    __slots__ = ("e",)

    def __init__(self, e):
        self.e = e

    def __bool__(self):
        return cur().branch(self.e)

    def __invert__(self):
        return SBool(z3.Not(self.e))

    def __and__(self, o):
        return SBool(z3.And(self.e, _b(o)))

    __rand__ = __and__

    def __or__(self, o):
        return SBool(z3.Or(self.e, _b(o)))

    __ror__ = __or__

    def __eq__(self, o):
        if _isinstance(o, (SBool, bool)):
            return SBool(self.e == _b(o))
        return NotImplemented

    def __ne__(self, o):
        if _isinstance(o, (SBool, bool)):
            return SBool(self.e != _b(o))
        return NotImplemented

    def __hash__(self):
        raise Unsupported("hash of symbolic bool")

    def __repr__(self):
        return "SBool(%s)" % (self.e,)


def _b(x):
    if _isinstance(x, SBool):
        return x.e
    if _isinstance(x, bool):
        return z3.BoolVal(x)
    raise Unsupported("not a boolean: %r" % (x,))


def sbool(x):
    return x if _isinstance(x, SBool) else SBool(z3.BoolVal(bool(x)))


class SNum:
    """Symbolic number.  ``t`` is a z3 Int or Real term.

    ``frac`` optionally holds (num, den) z3 Real terms with den > 0 proved on
    this path, so comparisons can be cross-multiplied (keeps them linear).
    """

    __slots__ = ("t", "frac")

    def __init__(self, t, frac=None):
        self.t = t
        self.frac = frac

    # -- kinds -------------------------------------------------------------
    @property
    def is_int(self):
        return self.t.sort().kind() == z3.Z3_INT_SORT

    def real(self):
        return z3.ToReal(self.t) if self.is_int else self.t

    # -- lifting -----------------------------------------------------------
    @staticmethod
    def lift(x):
        if _isinstance(x, SNum):
            return x
        if _isinstance(x, bool):
            return SNum(z3.IntVal(_int(x)))
        if _isinstance(x, _int):
            return SNum(z3.IntVal(x))
        if _isinstance(x, (_float, Fraction)):
            return SNum(rv(x))
        return None

    # -- arithmetic ----------------------------------------------------------
    def _arith(self, o, op, swap=False):
        if _isinstance(o, _float) and o in (INF, -INF):
            raise Unsupported("arithmetic with inf")
        b = SNum.lift(o)
        if b is None:
            return NotImplemented
        a = self
        if swap:
            a, b = b, a
        both_int = a.is_int and b.is_int
        if op == "add":
            if both_int:
                return SNum(a.t + b.t)
            r = SNum(a.real() + b.real())
            if a.frac and not b.frac:
                n, d = a.frac
                r.frac = (n + b.real() * d, d)
            elif b.frac and not a.frac:
                n, d = b.frac
                r.frac = (n + a.real() * d, d)
            return r
        if op == "sub":
            if both_int:
                return SNum(a.t - b.t)
            r = SNum(a.real() - b.real())
            if a.frac and not b.frac:
                n, d = a.frac
                r.frac = (n - b.real() * d, d)
            elif b.frac and not a.frac:
                n, d = b.frac
                r.frac = (a.real() * d - n, d)
            return r
        if op == "mul":
            if both_int:
                return SNum(a.t * b.t)
            r = SNum(a.real() * b.real())
            if a.frac and not b.frac:
                n, d = a.frac
                r.frac = (n * b.real(), d)
            elif b.frac and not a.frac:
                n, d = b.frac
                r.frac = (n * a.real(), d)
            return r
        if op == "div":
            return cur().divide(a, b)
        if op == "floordiv":
            return cur().floordiv(a, b)
        if op == "mod":
            return cur().mod(a, b)
        raise Unsupported(op)

    def __add__(self, o):
        return self._arith(o, "add")

    def __radd__(self, o):
        return self._arith(o, "add", True)

    def __sub__(self, o):
        return self._arith(o, "sub")

    def __rsub__(self, o):
        return self._arith(o, "sub", True)

    def __mul__(self, o):
        return self._arith(o, "mul")

    def __rmul__(self, o):
        return self._arith(o, "mul", True)

    def __truediv__(self, o):
        return self._arith(o, "div")

    def __rtruediv__(self, o):
        return self._arith(o, "div", True)

    def __floordiv__(self, o):
        return self._arith(o, "floordiv")

    def __rfloordiv__(self, o):
        return self._arith(o, "floordiv", True)

    def __mod__(self, o):
        return self._arith(o, "mod")

    def __rmod__(self, o):
        return self._arith(o, "mod", True)

    def __neg__(self):
        r = SNum(-self.t)
        if self.frac:
            r.frac = (-self.frac[0], self.frac[1])
        return r

    def __pos__(self):
        return self

    def __abs__(self):
        return SNum(z3.If(self.t >= 0, self.t, -self.t))

    def __pow__(self, e, mod=None):
        if mod is not None:
            raise Unsupported("3-arg pow")
        return cur().power(self, e)

    def __rpow__(self, base):
        return cur().power(base, self)

    # -- comparisons -------------------------------------------------------
    def _cmp(self, o, op):
        if _isinstance(o, _float) and o in (INF, -INF):
            pos = o > 0
            res = {
                "lt": pos, "le": pos, "gt": not pos, "ge": not pos,
                "eq": False, "ne": True,
            }[op]
            return SBool(z3.BoolVal(res))
        b = SNum.lift(o)
        if b is None:
            return NotImplemented
        a = self
        if a.is_int and b.is_int:
            x, y = a.t, b.t
        elif a.frac or b.frac:
            # cross-multiply; denominators are > 0 on this path
            an, ad = a.frac if a.frac else (a.real(), None)
            bn, bd = b.frac if b.frac else (b.real(), None)
            x = an if bd is None else an * bd
            y = bn if ad is None else bn * ad
        else:
            x, y = a.real(), b.real()
        if op == "lt":
            return SBool(x < y)
        if op == "le":
            return SBool(x <= y)
        if op == "gt":
            return SBool(x > y)
        if op == "ge":
            return SBool(x >= y)
        if op == "eq":
            return SBool(x == y)
        return SBool(x != y)

    def __lt__(self, o):
        return self._cmp(o, "lt")

    def __le__(self, o):
        return self._cmp(o, "le")

    def __gt__(self, o):
        return self._cmp(o, "gt")

    def __ge__(self, o):
        return self._cmp(o, "ge")

    def __eq__(self, o):
        return self._cmp(o, "eq")

    def __ne__(self, o):
        return self._cmp(o, "ne")

    def __hash__(self):
        # constant hash: dict / set lookups among symbolic keys fall through to __eq__ (a fork on the values);
        # mixing symbolic and concrete numeric keys in one dict is not modelled
        return 0

    def __bool__(self):
        return cur().branch(self.t != 0)

    # -- conversions -------------------------------------------------------
    def __round__(self, nd=None):
        return cur().round_(self, nd)

    def __trunc__(self):
        return cur().trunc(self)

    def __floor__(self):
        return cur().floor(self)

    def __ceil__(self):
        return -cur().floor(-self)

    def __int__(self):
        raise Unsupported("builtin int() on a symbolic number (namespace not injected)")

    def __float__(self):
        raise Unsupported("builtin float() on a symbolic number (namespace not injected)")

    def __index__(self):
        if not self.is_int:
            # python: floats have no __index__ ("can't multiply sequence by non-int of type 'float'", list indices must be integers)
            raise TypeError("'float' object cannot be interpreted as an integer")
        raise Unsupported("symbolic integer used as an index / repeat count")

    def __str__(self):
        return cur().token_for(self, made_by_code=_caller_is_code())

    __repr__ = __str__

    def __format__(self, spec):
        if spec == "":
            return cur().token_for(self, made_by_code=_caller_is_code())
        m = re.fullmatch(r"\.(\d+)f", spec)
        if m and not self.is_int:
            # fixed-point formatting: the printed numeral denotes the value rounded to N decimals
            r = cur().round_(self, _int(m.group(1)))
            return cur().token_for(r, made_by_code=False)
        raise Unsupported("format spec %r on a symbolic number" % (spec,))


def _caller_is_code():
    """True when str()/format() of a symbolic number is executed by the code under test (not by the harness, whose
    strings stand for numerals the user wrote in plain decimal notation)"""
    import sys
    f = sys._getframe(2)
    return str(f.f_globals.get("__name__", "")).startswith("cm_colors")


def lift(x):
    r = SNum.lift(x)
    if r is None:
        raise Unsupported("cannot lift %r" % (x,))
    return r


def term(x):
    """z3 Real term of a python number or SNum."""
    return lift(x).real()


class SymRGB(tuple):
    """A tuple of channels whose equality is ONE symbolic boolean (one fork, not three)."""

    def __new__(cls, items):
        return super().__new__(cls, items)

    def _eqterm(self, other):
        if not _isinstance(other, tuple) or len(other) != len(self):
            return None
        cs = []
        for a, b in zip(self, other):
            cs.append(_b(sbool(lift(a) == b)) if (_isinstance(a, SNum) or _isinstance(b, SNum)) else z3.BoolVal(a == b))
        return z3.And(*cs) if cs else z3.BoolVal(True)

    def __eq__(self, other):
        t = self._eqterm(other)
        if t is None:
            return False
        return SBool(t)

    def __ne__(self, other):
        t = self._eqterm(other)
        if t is None:
            return True
        return SBool(z3.Not(t))

    def __hash__(self):
        # A constant hash makes dict / set lookups with symbolic colour keys fall through to __eq__, i.e. to a fork
        # on the equality of the VALUES (both outcomes explored): python's dict semantics, soundly.  Mixing such keys
        # with concrete tuples (different hash) is not modelled.
        if all(_isinstance(x, SNum) for x in self):
            return 0
        raise Unsupported("hash of a partly symbolic colour")

    def __getitem__(self, i):
        r = tuple.__getitem__(self, i)
        if _isinstance(i, slice):
            return SymRGB(r)
        return r


# --------------------------------------------------------------------------
# injected builtins
# --------------------------------------------------------------------------

class _IntMeta(type):
    def __instancecheck__(cls, obj):
        if type(obj).__name__ == "SBV8":
            return True
        if _isinstance(obj, SNum):
            return obj.is_int
        return _isinstance(obj, _int)

    def __subclasscheck__(cls, sub):
        return issubclass(sub, _int)


class SymInt(metaclass=_IntMeta):
    __name__ = "int"

    def __new__(cls, x=0, base=None):
        if base is not None:
            if _isinstance(x, str) and TOKEN_RE.search(x):
                raise Unsupported("int(token, base)")
            return _int(x, base)
        if _isinstance(x, SNum):
            return cur().trunc(x)
        if _isinstance(x, str):
            v = cur().untoken(x)
            if v is not None:
                if not v.is_int:
                    raise ValueError("invalid literal for int() with base 10: %r" % (x,))
                return v
        return _int(x)


class _FloatMeta(type):
    def __instancecheck__(cls, obj):
        if type(obj).__name__ == "SFP":
            return True
        if _isinstance(obj, SNum):
            return not obj.is_int
        return _isinstance(obj, _float)

    def __subclasscheck__(cls, sub):
        return issubclass(sub, _float)


class SymFloat(metaclass=_FloatMeta):
    __name__ = "float"

    def __new__(cls, x=0.0):
        if _isinstance(x, SNum):
            return SNum(x.real(), x.frac)
        if _isinstance(x, str):
            v = cur().untoken(x)
            if v is not None:
                if not _isinstance(v, SNum):
                    return v.to_fp() if hasattr(v, "to_fp") else v
                return SNum(v.real(), v.frac)
        if hasattr(x, "to_fp"):
            return x.to_fp()
        if type(x).__name__ == "SFP":
            return x
        return _float(x)


class _TupleMeta(type):
    def __instancecheck__(cls, obj):
        return _isinstance(obj, tuple)

    def __subclasscheck__(cls, sub):
        return issubclass(sub, tuple)


class SymTuple(metaclass=_TupleMeta):
    """tuple() replacement: tuples holding symbolic channels become SymRGB (single-fork equality)."""
    __name__ = "tuple"

    def __new__(cls, it=()):
        items = list(it)
        if any(_isinstance(x, SNum) for x in items):
            return SymRGB(items)
        return tuple(items)


def smax(*args, **kw):
    if kw:
        return _max(*args, **kw)
    if len(args) == 1:
        args = tuple(args[0])
    if not any(_isinstance(a, SNum) for a in args):
        return _max(*args)
    # python's max keeps the first maximal element; as a value that is the max
    r = args[0]
    for a in args[1:]:
        r = _select(lift(a) > r, a, r)
    return r


def smin(*args, **kw):
    if kw:
        return _min(*args, **kw)
    if len(args) == 1:
        args = tuple(args[0])
    if not any(_isinstance(a, SNum) for a in args):
        return _min(*args)
    r = args[0]
    for a in args[1:]:
        r = _select(lift(a) < r, a, r)
    return r


def _select(c, a, b):
    """If-term, collapsed to one operand when the path already decides the condition (keeps clamp chains
    like max(0, min(255, x)) from nesting; no fork either way)."""
    ce = z3.simplify(_b(c))
    if z3.is_true(ce):
        return a
    if z3.is_false(ce):
        return b
    eng = CUR
    if eng is not None and eng.collapse_ite and (not _isinstance(a, SNum) or not _isinstance(b, SNum)):
        # only clamp-like selections (one operand is a constant) are worth a solver question
        if eng.implied(ce):
            return a
        if eng.implied(z3.Not(ce)):
            return b
    return _ite_num(c, a, b)


def _ite_num(c, a, b):
    """If-term over numbers; result is int only when both are int."""
    a, b = lift(a), lift(b)
    ce = _b(c)
    if a.is_int and b.is_int:
        return SNum(z3.If(ce, a.t, b.t))
    r = SNum(z3.If(ce, a.real(), b.real()))
    return r


def ite(c, a, b):
    if _isinstance(c, bool):
        return a if c else b
    return _ite_num(c, a, b)


class SymMath:
    """Replacement for the ``math`` module inside the code under test."""

    pi = _math.pi
    e = _math.e
    inf = _math.inf
    nan = _math.nan
    tau = _math.tau

    def __getattr__(self, name):
        f = getattr(_math, name)

        def guard(*a, **k):
            if any(_isinstance(x, SNum) for x in a):
                raise Unsupported("math.%s on a symbolic number" % name)
            return f(*a, **k)

        return guard

    @staticmethod
    def _sym(*a):
        return any(_isinstance(x, SNum) for x in a)

    def sqrt(self, x):
        if not self._sym(x):
            return _math.sqrt(x)
        return cur().sqrt(x)

    def pow(self, x, y):
        if not self._sym(x, y):
            return _math.pow(x, y)
        return cur().power(x, y)

    def cbrt(self, x):
        if not self._sym(x):
            return _math.cbrt(x)
        return cur().power(x, Fraction(1, 3), name_hint="cbrt")

    def radians(self, x):
        if not self._sym(x):
            return _math.radians(x)
        return x * (_math.pi / 180.0)

    def degrees(self, x):
        if not self._sym(x):
            return _math.degrees(x)
        return x * (180.0 / _math.pi)

    def fabs(self, x):
        if not self._sym(x):
            return _math.fabs(x)
        return SymFloat(_abs(x))

    def hypot(self, *xs):
        if not self._sym(*xs):
            return _math.hypot(*xs)
        s = 0
        for x in xs:
            s = s + x * x
        return cur().sqrt(s)

    def floor(self, x):
        if not self._sym(x):
            return _math.floor(x)
        return cur().floor(x)

    def ceil(self, x):
        if not self._sym(x):
            return _math.ceil(x)
        return -cur().floor(-x)

    def trunc(self, x):
        if not self._sym(x):
            return _math.trunc(x)
        return cur().trunc(x)

    def isfinite(self, x):
        if not self._sym(x):
            return _math.isfinite(x)
        return True

    def isnan(self, x):
        if not self._sym(x):
            return _math.isnan(x)
        return False

    def isinf(self, x):
        if not self._sym(x):
            return _math.isinf(x)
        return False

    def fmod(self, x, y):
        if not self._sym(x, y):
            return _math.fmod(x, y)
        if _isinstance(y, SNum):
            raise Unsupported("math.fmod with symbolic modulus")
        # C fmod: x - y * trunc(x / y)  (result has the sign of x)
        x = lift(x)
        q = cur().trunc(SymFloat(x) / y)
        return SymFloat(x) - SymFloat(q) * y

    def remainder(self, x, y):
        raise Unsupported("math.remainder symbolic")

    def copysign(self, x, y):
        if not self._sym(x, y):
            return _math.copysign(x, y)
        ax = _abs(lift(x))
        return ite(lift(y) >= 0, ax, -ax)

    def _uf1(name):  # noqa
        def f(self, x):
            if not self._sym(x):
                return getattr(_math, name)(x)
            return cur().uf(name, [x])

        f.__name__ = name
        return f

    cos = _uf1("cos")
    sin = _uf1("sin")
    tan = _uf1("tan")
    exp = _uf1("exp")
    log = _uf1("log")
    acos = _uf1("acos")
    asin = _uf1("asin")
    atan = _uf1("atan")

    def atan2(self, y, x):
        if not self._sym(x, y):
            return _math.atan2(y, x)
        return cur().uf("atan2", [y, x])


TOKEN_RE = re.compile("§[a-z]+§")


class TokenAwareNumRe:
    """Wraps color_parser._NUM_RE so that numeral tokens are found like numerals."""

    def __init__(self, orig):
        self._orig = orig
        # a token stands for an (unsigned or signed) plain decimal numeral
        self._re = re.compile("(?:" + orig.pattern.rstrip("%?") + "|§[a-z]+§)%?")
        if not orig.pattern.endswith("%?"):
            raise Unsupported("unexpected _NUM_RE pattern %r" % orig.pattern)
        self.pattern = orig.pattern

    def findall(self, s):
        if "§" not in s:
            return self._orig.findall(s)
        found = self._re.findall(s)
        eng = CUR
        if eng is not None and "e" not in self._orig.pattern.lower():
            # The numeral pattern has no exponent syntax.  A symbolic FLOAT that was turned into text by str()/format()
            # is spelled by repr(): plain decimal only for 0 or 1e-4 <= |x| < 1e16.  Reading such text through this
            # pattern is only faithful under that condition, which therefore becomes an obligation of the path.
            for tok in found:
                key = tok.rstrip("%")
                v = eng.tokens.get(key)
                if v is not None and _isinstance(v, SNum) and not v.is_int and key in eng.str_made and key not in eng._plain_checked:
                    eng._plain_checked.add(key)
                    av = z3.If(v.t >= 0, v.t, -v.t)
                    eng.obligations.append(("a float printed by repr() is re-read through a numeral pattern without exponent syntax: "
                                            "value must print in plain decimal (0 or 1e-4 <= |x| < 1e16)",
                                            z3.Or(v.t == 0, z3.And(av >= rv(Fraction(1, 10000)), av < rv(10 ** 16))), {}))
        return found

    def __getattr__(self, n):
        return getattr(self._orig, n)


def srange_factory(cap_table):
    """range() replacement truncating constant trip counts to a stated bound.

    cap_table maps the original constant trip count -> number of iterations executed.  This is a
    bounded-unrolling MODEL of the loop (the loop runs K instead of N times), stated as a bound in the
    evidence of every check that uses it.
    """

    def srange(*a):
        r = _range(*a)
        n = len(r)
        cap = cap_table.get(n)
        if cap is None or cap >= n:
            return r
        cur().stats["cut_bound"] += 1
        return r[:cap]

    return srange


class SymSeq(list):
    """A module-level numeric table (list/tuple of numbers built at import time) that can be indexed by a symbolic
    integer: the lookup becomes an uninterpreted function of the index with one exact ground fact per entry
    (the entries are the doubles the module computed; each denotes its rational value)."""

    def __init__(self, items, name):
        super().__init__(items)
        self._name = name

    def __getitem__(self, i):
        if _isinstance(i, SNum):
            if not i.is_int:
                raise TypeError("list indices must be integers")
            eng = cur()
            n = len(self)
            if eng.branch(z3.Or(i.t < -n, i.t >= n)):
                raise IndexError("list index out of range")
            vals = list(self)

            def table_fn(xv, vals=vals, n=n):
                k = _int(xv)
                f = frac_of(vals[k if k >= 0 else k + n])
                return (f, f)

            return eng.uf("tab_" + self._name, [i], table_fn=table_fn)
        return super().__getitem__(i)


def inject(module, caps=None, extra=None):
    """Shadow builtins in ``module``'s namespace (only there) with symbolic-aware ones."""
    for gname, gval in list(vars(module).items()):
        if type(gval) in (list, tuple) and 16 <= len(gval) <= 4096 and all(type(x) in (_int, _float) for x in gval):
            setattr(module, gname, SymSeq(gval, "%s_%s" % (module.__name__.rsplit(".", 1)[-1], gname.strip("_"))))
    module.int = SymInt
    module.float = SymFloat
    module.max = smax
    module.min = smin
    module.tuple = SymTuple
    if hasattr(module, "math"):
        module.math = SymMath()
    if caps:
        module.range = srange_factory(caps)
    if hasattr(module, "_NUM_RE") and not _isinstance(module._NUM_RE, TokenAwareNumRe):
        module._NUM_RE = TokenAwareNumRe(module._NUM_RE)
    for k, v in (extra or {}).items():
        setattr(module, k, v)


# --------------------------------------------------------------------------
# exact enclosures of x**(p/q)
# --------------------------------------------------------------------------

_ENC_CACHE = {}
_TABLE_CACHE = {}


def enclose_pow(x: Fraction, p: int, q: int, rel=Fraction(1, 10 ** 12)):
    """Rigorous rational enclosure [lo, hi] of x**(p/q) for x >= 0 (exact integer arithmetic)."""
    key = (x, p, q)
    if key in _ENC_CACHE:
        return _ENC_CACHE[key]
    if x < 0:
        raise Unsupported("enclose_pow of negative base")
    if x == 0:
        r = (Fraction(0), Fraction(0))
    elif x == 1:
        r = (Fraction(1), Fraction(1))
    else:
        target = x ** p  # want y with y**q == target
        approx = Fraction(_float(x) ** (p / q))
        w = rel
        while True:
            lo = approx * (1 - w)
            hi = approx * (1 + w)
            if lo ** q <= target <= hi ** q:
                break
            w *= 16
            if w > 1:
                raise Unsupported("enclosure failed for %s**(%d/%d)" % (x, p, q))
        # trim the rationals (keep them short): round outward to 60 bits
        r = (_round_down(lo), _round_up(hi))
        if not (r[0] ** q <= target <= r[1] ** q):
            r = (lo, hi)
    _ENC_CACHE[key] = r
    return r


def _round_down(f, bits=70):
    if f == 0:
        return f
    s = 1 << bits
    scale = s
    while f * scale < s:  # keep relative precision for small numbers
        scale <<= 8
    return Fraction((f * scale).__floor__(), scale)


def _round_up(f, bits=70):
    if f == 0:
        return f
    s = 1 << bits
    scale = s
    while f * scale < s:
        scale <<= 8
    return Fraction(-((-f * scale).__floor__()), scale)


# --------------------------------------------------------------------------
# the engine
# --------------------------------------------------------------------------

class PathResult:
    __slots__ = ("index", "decisions", "pc", "side", "heavy", "outcome", "value", "exc", "obligations", "inputs", "notes")

    def constraints(self, heavy=True):
        return list(self.side) + (list(self.heavy) if heavy else []) + list(self.pc)


class Engine:
    def __init__(self, feas_timeout_ms=300, algebraic=False, table=True, max_paths=200000, deadline=None,
                 margin_round=None):
        self.feas_timeout_ms = _int(feas_timeout_ms * FEAS_SCALE)
        self.algebraic = algebraic          # add y**q == x**p constraints for roots (nonlinear)
        self.table = table                  # add enclosure tables for 1-variable transcendental args
        self.max_paths = max_paths
        self.deadline = deadline
        self.margin_round = margin_round    # None = exact round-half-even; Fraction m = pre-rounding margin
        self.stats = dict(paths=0, feas_queries=0, feas_time=0.0, feas_unknown=0, cut_bound=0,
                          aborted=0, forks=0)
        self.ufs = {}
        self.collapse_ite = True
        self._shard_depth = None
        self._shard_prefixes = []
        self._reset(())

    # -- per path state ----------------------------------------------------
    def _reset(self, prefix):
        self.prefix = list(prefix)
        self.decisions = []
        self.pc = []
        self.side = []
        self.heavy = []       # bulky table facts: used for obligations, not for feasibility checks
        self.solver = z3.Solver()
        self.solver.set("timeout", self.feas_timeout_ms)
        self.model = None     # a model of everything asserted so far (or None)
        self.alts = []
        self.inputs = {}      # name -> z3 var (inputs of the harness, for models / replay)
        self.domains = {}     # z3 var id -> (var, lo, hi) small integer domains
        self.counter = 0
        self.tokens = {}
        self.tok_index = {}
        self._sin_args = []
        self.str_made = set()       # tokens created by str()/format() of a symbolic number
        self._plain_checked = set()
        self.obligations = []
        self.notes = []
        self._tabled = set()
        self._memo = {}       # (op, term id) -> (result var, term): round/trunc/floor are functions of their argument
        self.round_log = {}   # id of the Int result of round(x) -> the real term x (pre-rounding value)
        self.trunc_log = {}
        self._margin_obls = []

    def add_side(self, c):
        self.side.append(c)
        self.solver.add(c)

    def fresh(self, base, sort="real"):
        self.counter += 1
        name = "%s!%d" % (base, self.counter)
        return z3.Int(name) if sort == "int" else (z3.Bool(name) if sort == "bool" else z3.Real(name))

    # -- inputs --------------------------------------------------------------
    def int_var(self, name, lo, hi, small=True):
        v = z3.Int(name)
        self.add_side(z3.And(v >= lo, v <= hi))
        self.inputs[name] = v
        if small and hi - lo <= 1024:
            self.domains[v.get_id()] = (v, lo, hi)
        return SNum(v)

    def real_var(self, name, lo=None, hi=None, dyadic=None):
        """Free real input.  dyadic=k restricts it to multiples of 2**-k (exactly representable
        doubles in the ranges used here), so that a model replays bit-exactly as a float."""
        v = z3.Real(name)
        if dyadic is not None:
            n = z3.Int(name + "!n")
            self.add_side(v == z3.ToReal(n) / rv(2 ** dyadic))
        if lo is not None:
            self.add_side(v >= rv(lo))
        if hi is not None:
            self.add_side(v <= rv(hi))
        self.inputs[name] = v
        return SNum(v)

    def bool_var(self, name):
        v = z3.Bool(name)
        self.inputs[name] = v
        return SBool(v)

    def rgb_var(self, name):
        return SymRGB([self.int_var(name + c, 0, 255) for c in "rgb"])

    def fresh_rgb(self, base):
        self.counter += 1
        n = "%s!%d" % (base, self.counter)
        return SymRGB([self.int_var(n + c, 0, 255) for c in "rgb"])

    def fresh_bool(self, base):
        self.counter += 1
        return self.bool_var("%s!%d" % (base, self.counter))

    def assume(self, c):
        self.add_side(_b(sbool(c)))

    def oblige(self, name, c, **meta):
        """Record a proof obligation for this path: c must hold under pc & side."""
        self.obligations.append((name, _b(sbool(c)), meta))

    # -- forking -------------------------------------------------------------
    def _check(self, extra):
        s = self.solver
        s.push()
        s.add(extra)
        t0 = time.time()
        r = s.check()
        self.stats["feas_queries"] += 1
        self.stats["feas_time"] += time.time() - t0
        m = None
        if r == z3.sat:
            try:
                m = s.model()
            except z3.Z3Exception:
                m = None
        s.pop()
        if r == z3.unknown:
            self.stats["feas_unknown"] += 1
            return True, None
        return r == z3.sat, m

    def _model_says(self, c):
        """Evaluate c in the cached model, if that model is still a model of all assertions."""
        if self.model is None:
            return None
        m, n_side, n_pc = self.model
        try:
            for x in self.side[n_side:]:
                if not z3.is_true(m.eval(x, model_completion=True)):
                    self.model = None
                    return None
            for x in self.pc[n_pc:]:
                if not z3.is_true(m.eval(x, model_completion=True)):
                    self.model = None
                    return None
            self.model = (m, len(self.side), len(self.pc))
            v = m.eval(c, model_completion=True)
        except z3.Z3Exception:
            self.model = None
            return None
        if z3.is_true(v):
            return True
        if z3.is_false(v):
            return False
        return None

    def branch(self, cond):
        c = z3.simplify(cond)
        if z3.is_true(c):
            return True
        if z3.is_false(c):
            return False
        pos = len(self.decisions)
        if pos < len(self.prefix):
            d = self.prefix[pos]
        else:
            if self._shard_depth is not None and pos >= self._shard_depth:
                self._shard_prefixes.append(tuple(self.decisions))
                raise PathAbort("shard")
            if self.deadline and time.time() > self.deadline:
                raise Budget("deadline")
            hint = self._model_says(c)
            mt = mf = None
            if hint is True:
                ft = True
                ff, mf = self._check(z3.Not(c))
            elif hint is False:
                ff = True
                ft, mt = self._check(c)
            else:
                ft, mt = self._check(c)
                ff, mf = self._check(z3.Not(c))
            if ft and ff:
                d = True
                self.alts.append(self.decisions + [False])
                self.stats["forks"] += 1
            elif ft:
                d = True
            elif ff:
                d = False
            else:
                raise PathAbort("infeasible")
            newm = mt if d else mf
            if newm is not None:
                self.model = (newm, len(self.side), len(self.pc) + 1)
            elif not ((hint is True and d) or (hint is False and not d)):
                self.model = None
        self.decisions.append(d)
        lit = c if d else z3.Not(c)
        self.pc.append(lit)
        self.solver.add(lit)
        return d

    def implied(self, cond):
        """True iff cond is implied by the current path (no fork).  The answer is recorded in the decision
        trace so that re-executions with a prefix do not ask the solver again."""
        c = z3.simplify(cond)
        if z3.is_true(c):
            return True
        if z3.is_false(c):
            return False
        pos = len(self.decisions)
        if pos < len(self.prefix):
            r = self.prefix[pos]
            self.decisions.append(r)
            self._implied_lemma(c, r)
            return r
        if self._shard_depth is not None and pos >= self._shard_depth:
            self._shard_prefixes.append(tuple(self.decisions))
            raise PathAbort("shard")
        hint = self._model_says(c)
        if hint is False:
            r = False
        else:
            r = not self._check(z3.Not(c))[0]
        self.decisions.append(r)
        self._implied_lemma(c, r)
        return r

    def _implied_lemma(self, c, r):
        """r is True only when z3 answered unsat for (path so far) & not c: c is then a consequence of constraints that
        stay on the path, and is kept as a redundant lemma (it cannot change the path's models).  Without it an obligation
        about a term whose clamp was collapsed on the strength of this very answer has to re-derive the fact from the whole,
        longer, constraint set -- which a non-linear solver sometimes fails to do (probe run: C10 'valid 8-bit colour')."""
        if r:
            self.pc.append(c)
            self.solver.add(c)
        else:
            self.pc.append(z3.BoolVal(True))

    # -- arithmetic helpers ----------------------------------------------------
    def divide(self, a, b):
        a, b = lift(a), lift(b)
        bt = z3.simplify(b.real())
        bf = z3_to_frac(bt) if z3.is_rational_value(bt) or z3.is_int_value(bt) else None
        if bf is not None:
            if bf == 0:
                raise ZeroDivisionError("division by zero")
            r = SNum(a.real() / bt)
            if a.frac:
                n, d = a.frac
                r.frac = (n / bt, d)
            return r
        # symbolic denominator: python raises ZeroDivisionError when it is 0
        zero = (b.frac[0] == 0) if b.frac else (b.real() == 0)
        if self.branch(zero):
            raise ZeroDivisionError("float division by zero")
        an, ad = a.frac if a.frac else (a.real(), None)
        bn, bd = b.frac if b.frac else (b.real(), None)
        num = an if bd is None else an * bd
        den = bn if ad is None else bn * ad
        r = SNum(a.real() / b.real())
        if self.implied(den > 0):
            r.frac = (num, den)
        elif self.implied(den < 0):
            r.frac = (-num, -den)
        return r

    def floor(self, x):
        x = lift(x)
        if x.is_int:
            return x
        key = ("floor", x.t.get_id())
        if key in self._memo:
            return SNum(self._memo[key][0])
        n = self.fresh("floor", "int")
        self._memo[key] = (n, x.t)
        self.add_side(z3.And(z3.ToReal(n) <= x.t, x.t < z3.ToReal(n) + 1))
        return SNum(n)

    def trunc(self, x):
        x = lift(x)
        if x.is_int:
            return x
        inner = _strip_toreal(x.t)
        if inner is not None:
            return SNum(inner)
        key = ("trunc", x.t.get_id())
        if key in self._memo:
            return SNum(self._memo[key][0])
        n = self.fresh("trunc", "int")
        self._memo[key] = (n, x.t)
        nr = z3.ToReal(n)
        self.trunc_log[n.get_id()] = x.t
        self.add_side(z3.If(x.t >= 0, z3.And(nr <= x.t, x.t < nr + 1), z3.And(nr >= x.t, x.t > nr - 1)))
        return SNum(n)

    def round_(self, x, nd=None):
        x = lift(x)
        if nd is not None:
            if x.is_int:
                return x
            # round(x, nd) -> float within half a unit of the nd-th decimal
            r = self.fresh("roundnd", "real")
            half = Fraction(1, 2) / (Fraction(10) ** _int(nd))
            # kept out of the feasibility solver and of the first (light) discharge attempt: typically a
            # non-linear definition of a display value
            self.heavy.append(z3.And(r - x.t <= rv(half), x.t - r <= rv(half)))
            return SNum(r)
        if x.is_int:
            return x
        inner = _strip_toreal(x.t)
        if inner is not None:
            return SNum(inner)
        key = ("round", x.t.get_id())
        if key in self._memo:
            return SNum(self._memo[key][0])
        n = self.fresh("round", "int")
        self._memo[key] = (n, x.t)
        nr = z3.ToReal(n)
        half = rv(Fraction(1, 2))
        self.round_log[n.get_id()] = x.t
        if self.margin_round is not None:
            m = rv(self.margin_round)
            # pre-rounding margin: the value is within m < 1/2 of the integer; recorded as an
            # obligation-by-construction: the harness must discharge 'margin' obligations
            self.add_side(z3.And(nr - half <= x.t, x.t <= nr + half))
            self._margin_obls.append(z3.And(x.t - nr <= m, nr - x.t <= m))
            return SNum(n)
        self.add_side(z3.And(
            nr - half <= x.t, x.t <= nr + half,
            z3.Implies(x.t - nr == half, n % 2 == 0),
            z3.Implies(nr - x.t == half, n % 2 == 0),
        ))
        return SNum(n)

    def floordiv(self, a, b):
        a, b = lift(a), lift(b)
        bt = z3.simplify(b.real())
        if not (z3.is_rational_value(bt) or z3.is_int_value(bt)):
            raise Unsupported("floor division by a symbolic value")
        bf = z3_to_frac(bt)
        if bf == 0:
            raise ZeroDivisionError("integer division or modulo by zero")
        q = self.floor(SNum(a.real() / bt))
        if a.is_int and b.is_int:
            return q
        return SNum(z3.ToReal(q.t))

    def mod(self, a, b):
        a, b = lift(a), lift(b)
        bt = z3.simplify(b.real())
        if not (z3.is_rational_value(bt) or z3.is_int_value(bt)):
            raise Unsupported("modulo by a symbolic value")
        bf = z3_to_frac(bt)
        if bf == 0:
            raise ZeroDivisionError("modulo by zero")
        q = self.floor(SNum(a.real() / bt))
        if a.is_int and b.is_int:
            return SNum(a.t - q.t * b.t)
        return SNum(a.real() - z3.ToReal(q.t) * bt)

    # -- powers, roots, transcendentals -------------------------------------------
    def power(self, base, e, name_hint=None):
        if _isinstance(e, SNum):
            et = z3.simplify(e.real())
            ef = z3_to_frac(et) if (z3.is_rational_value(et) or z3.is_int_value(et)) else None
            if ef is None:
                raise Unsupported("symbolic exponent")
            e = ef
        if not is_num(e):
            raise Unsupported("exponent %r" % (e,))
        if not _isinstance(base, SNum):
            # constant ** constant never reaches here (python computes it); constant ** symbolic rejected above
            base = lift(base)
        ef = Fraction(e).limit_denominator(1000) if not _isinstance(e, _int) else Fraction(e)
        if _isinstance(e, _float) and _abs(_float(ef) - e) > 1e-12:
            raise Unsupported("exponent %r is not a small rational" % (e,))
        p, q = ef.numerator, ef.denominator
        if q == 1 and 0 <= p <= 3:
            if p == 0:
                return SNum(z3.IntVal(1)) if base.is_int else SNum(rv(1))
            r = base
            for _ in _range(p - 1):
                r = r * base
            return r
        if q == 1 and p < 0:
            return 1 / self.power(base, -p)
        if q == 1:
            # integer power > 3 : UF with sign axioms (polynomial kept abstract, congruence decides equality)
            y = self.uf("pow_%d" % p, [base], table_fn=lambda xv, p=p: (xv ** p, xv ** p))
            yt = y.t
            bt = base.real()
            self.add_side(z3.Implies(bt >= 0, yt >= 0))
            if p % 2 == 0:
                self.add_side(yt >= 0)
            self.add_side(z3.Implies(bt == 0, yt == 0))
            return y
        if p < 0:
            return 1 / self.power(base, -ef)
        # fractional exponent: python gives a complex result for a negative base
        bt = base.real()
        if self.branch(bt < 0):
            raise TypeError("complex result of negative base ** fractional exponent")
        y = self.uf("pow_%d_%d" % (p, q), [base], table_fn=lambda xv, p=p, q=q: enclose_pow(xv, p, q))
        yt = y.t
        self.add_side(yt >= 0)
        self.add_side(z3.Implies(bt == 0, yt == 0))
        self.add_side(z3.Implies(bt > 0, yt > 0))
        self.add_side(z3.Implies(bt == 1, yt == 1))
        if p <= q:
            # concave root-like power on [0,1] and beyond: y >= x on [0,1], y <= x on [1,inf)
            self.add_side(z3.Implies(z3.And(bt >= 0, bt <= 1), z3.And(yt >= bt, yt <= 1)))
            self.add_side(z3.Implies(bt >= 1, z3.And(yt <= bt, yt >= 1)))
        else:
            self.add_side(z3.Implies(z3.And(bt >= 0, bt <= 1), z3.And(yt <= bt)))
            self.add_side(z3.Implies(bt >= 1, yt >= bt))
        if self.algebraic and q <= 3 and p <= 3:
            lhs = yt
            for _ in _range(q - 1):
                lhs = lhs * yt
            rhs = bt
            for _ in _range(p - 1):
                rhs = rhs * bt
            self.add_side(lhs == rhs)
        return y

    def sqrt(self, x):
        x = lift(x)
        xt = x.real()
        if self.branch(xt < 0):
            raise ValueError("math domain error")
        y = self.uf("sqrt", [x], table_fn=lambda xv: enclose_pow(xv, 1, 2))
        self.add_side(y.t >= 0)
        self.add_side(z3.Implies(xt == 0, y.t == 0))
        self.add_side(z3.Implies(xt > 0, y.t > 0))
        # sqrt vs 1 (monotone, sqrt(1) = 1): true facts that let the solver bound ratios such as sqrt(u/(u+k))
        self.add_side(z3.Implies(xt < 1, y.t < 1))
        self.add_side(z3.Implies(xt == 1, y.t == 1))
        self.add_side(z3.Implies(xt > 1, z3.And(y.t > 1, y.t < xt)))
        self.add_side(z3.Implies(z3.And(xt > 0, xt < 1), y.t > xt))
        if self.algebraic:
            self.add_side(y.t * y.t == xt)
        return y

    def uf(self, name, args, table_fn=None):
        args = [lift(a) for a in args]
        key = (name, len(args))
        f = self.ufs.get(key)
        if f is None:
            f = z3.Function("F_" + name, *([z3.RealSort()] * (len(args) + 1)))
            self.ufs[key] = f
        ats = [a.real() for a in args]
        y = f(*ats)
        if name in ("cos", "sin"):
            self.add_side(z3.And(y >= -1, y <= 1))
            if name == "sin":
                self._sin_args.append(ats[0])
        elif name == "exp":
            self.add_side(y > 0)
            self.add_side(z3.Implies(ats[0] <= 0, y <= 1))
            self.add_side(z3.Implies(ats[0] >= 0, y >= 1))
        elif name == "atan2":
            self.add_side(z3.And(y >= rv(-_math.pi), y <= rv(_math.pi)))
            # sign facts (quadrants): atan2(b, a)
            yb, xa = ats
            self.add_side(z3.Implies(yb > 0, y > 0))
            self.add_side(z3.Implies(yb < 0, y < 0))
            self.add_side(z3.Implies(z3.And(yb == 0, xa > 0), y == 0))
        if table_fn is not None and self.table and len(ats) == 1:
            self._tabulate(y, ats[0], table_fn, name)
        return SNum(y)

    def _free_vars(self, t, acc=None, seen=None):
        if acc is None:
            acc, seen = {}, set()
        i = t.get_id()
        if i in seen:
            return acc
        seen.add(i)
        if z3.is_const(t) and t.decl().kind() == z3.Z3_OP_UNINTERPRETED:
            acc[i] = t
        else:
            for c in t.children():
                self._free_vars(c, acc, seen)
        return acc

    def _tabulate(self, y, arg, table_fn, name):
        """If arg depends on exactly one small-domain integer variable, add exact enclosure facts."""
        k = (y.get_id())
        if k in self._tabled:
            return
        fv = self._free_vars(arg)
        if len(fv) == 0:
            xv = z3_to_frac(z3.simplify(arg))
            if xv is None:
                return
            lo, hi = table_fn(xv)
            self.add_side(z3.And(y >= rv(lo), y <= rv(hi)))
            self._tabled.add(k)
            return
        if len(fv) != 1:
            return
        (vid, v), = fv.items()
        dom = self.domains.get(vid)
        if dom is None:
            return
        _, lo_d, hi_d = dom
        ckey = (name, arg.sexpr(), lo_d, hi_d)
        cached = _TABLE_CACHE.get(ckey)
        if cached is None:
            los, his = [], []
            for val in _range(lo_d, hi_d + 1):
                xv = z3_to_frac(z3.simplify(z3.substitute(arg, (v, z3.IntVal(val)))))
                if xv is None:
                    return
                try:
                    lo, hi = table_fn(xv)
                except Unsupported:
                    return
                los.append(lo)
                his.append(hi)
            facts = []
            for j, val in enumerate(_range(lo_d, hi_d + 1)):
                facts.append(z3.Implies(v == val, z3.And(y >= rv(los[j]), y <= rv(his[j]))))
            out = [z3.And(*facts)]
            # hull (implied by the table; helps propagation); kept first = light part
            out.insert(0, z3.And(y >= rv(_min(los)), y <= rv(_max(his))))
            # step facts when the table is monotone (implied by the pointwise table)
            n = len(los)
            if all(los[i] <= los[i + 1] and his[i] <= his[i + 1] for i in _range(n - 1)):
                steps = []
                for j, val in enumerate(_range(lo_d, hi_d + 1)):
                    steps.append(z3.Implies(v >= val, y >= rv(los[j])))
                    steps.append(z3.Implies(v <= val, y <= rv(his[j])))
                out.append(z3.And(*steps))
            _TABLE_CACHE[ckey] = out
            cached = out
        self.add_side(cached[0])
        self.heavy.extend(cached[1:])
        self._tabled.add(k)

    # -- numerals inside strings ---------------------------------------------------
    def token_for(self, x, made_by_code=True):
        i = x.t.get_id()
        tok = self.tok_index.get(i)
        if tok is None:
            n = len(self.tokens)
            letters = ""
            while True:
                letters = chr(ord("a") + n % 26) + letters
                n = n // 26 - 1
                if n < 0:
                    break
            tok = "§" + letters + "§"
            self.tokens[tok] = x
            self.tok_index[i] = tok
        if made_by_code:
            self.str_made.add(tok)
        return tok

    def numeral(self, x):
        """a token for a numeral WRITTEN BY THE USER in plain decimal notation (harness inputs)"""
        tok = self.token_for(lift(x), made_by_code=False)
        self.str_made.discard(tok)
        return tok

    token_for_obj = token_for

    def untoken(self, s):
        s2 = s.strip()
        neg = False
        if s2[:1] in "+-" and len(s2) > 1:
            neg = s2[0] == "-"
            s2 = s2[1:]
        v = self.tokens.get(s2)
        if v is None:
            if "§" in s2:
                raise ValueError("could not convert string to float: %r" % (s,))
            return None
        if neg:
            return -v
        return v

    # -- exploration ----------------------------------------------------------------
    def shard_prefixes(self, fn, depth):
        """Phase 1 of sharding: the feasible decision prefixes of length <= depth (deterministic)."""
        global CUR
        self._shard_depth = depth
        self._shard_prefixes = []
        work = [()]
        try:
            while work:
                prefix = work.pop()
                self._reset(prefix)
                prev = CUR
                CUR = self
                try:
                    fn()
                    self._shard_prefixes.append(tuple(self.decisions))   # finished before the depth
                except PathAbort:
                    pass
                except EngineSignal:
                    raise
                except Exception:
                    self._shard_prefixes.append(tuple(self.decisions))
                finally:
                    CUR = prev
                work.extend(self.alts)
        finally:
            self._shard_depth = None
        return sorted(set(self._shard_prefixes))

    def shared_prefixes(self, fn, depth):
        """The prefix list that the shards of one job slice.  Feasibility answers under a wall-clock budget can differ between
        processes (an `unknown` keeps both branches), so every shard computing its own list would not give a partition: a prefix
        could fall between two differing lists and its paths be explored by nobody.  The first shard to get here computes
        the list and stores it in the run's scratch directory; the others (and re-runs of a shard) read that same list."""
        global SHARD_SEQ
        d = os.environ.get("VERIF_SHARD_DIR")
        if not d or not SHARD_KEY or not os.path.isdir(d):
            return self.shard_prefixes(fn, depth)
        SHARD_SEQ += 1
        path = os.path.join(d, "%s_%d_%d.json" % (SHARD_KEY, SHARD_SEQ, depth))
        with open(path + ".lock", "w") as lk:
            fcntl.flock(lk, fcntl.LOCK_EX)
            try:
                if os.path.exists(path):
                    with open(path) as f:
                        return [tuple(bool(x) for x in p) for p in _json.load(f)]
                allp = self.shard_prefixes(fn, depth)
                with open(path + ".tmp", "w") as f:
                    _json.dump([list(p) for p in allp], f)
                os.replace(path + ".tmp", path)
                return allp
            finally:
                fcntl.flock(lk, fcntl.LOCK_UN)

    def explore(self, fn, on_path=None, shard=None):
        """Run fn() on every feasible path.  shard=(i, n, depth) explores only the i-th of n slices of the
        decision-prefix set at the given depth (the slices partition the path set)."""
        global CUR
        work = [()]
        if shard is not None:
            i, n, depth = shard
            allp = self.shared_prefixes(fn, depth)
            work = list(allp[i::n])
            self.stats["shard"] = "%d/%d of %d prefixes at depth %d" % (i, n, len(allp), depth)
        results = []
        while work:
            prefix = work.pop()
            if self.stats["paths"] >= self.max_paths:
                raise Budget("max_paths")
            if self.deadline and time.time() > self.deadline:
                raise Budget("deadline")
            self._reset(prefix)
            prev = CUR
            CUR = self
            pr = PathResult()
            try:
                try:
                    pr.value = fn()
                    pr.outcome = "ok"
                    pr.exc = None
                except PathAbort as pa:
                    work.extend(self.alts)
                    if str(pa.reason).startswith("bound"):
                        self.stats["cut_bound"] += 1
                    else:
                        self.stats["aborted"] += 1
                    continue
                except EngineSignal:
                    raise
                except Exception as e:  # an exception of the code under test: a path outcome
                    pr.value = None
                    pr.outcome = "exc"
                    pr.exc = e
            finally:
                CUR = prev
            work.extend(self.alts)
            self.stats["paths"] += 1
            pr.index = self.stats["paths"]
            pr.decisions = list(self.decisions)
            pr.pc = list(self.pc)
            pr.side = list(self.side)
            pr.heavy = list(self.heavy)
            pr.obligations = list(self.obligations)
            for j, m in enumerate(self._margin_obls):
                pr.obligations.append(("round-margin-%d" % j, m, {}))
            pr.inputs = dict(self.inputs)
            pr.notes = list(self.notes)
            if on_path is not None:
                CUR = self
                try:
                    on_path(pr)
                except Stop:
                    return results
                finally:
                    CUR = prev
            else:
                results.append(pr)
        return results


def pre_round(eng, n):
    """The pre-rounding real term of an SNum produced by round()/int() on this path, else None."""
    if not _isinstance(n, SNum):
        return None
    i = n.t.get_id()
    if i in eng.round_log:
        return SNum(eng.round_log[i])
    if i in eng.trunc_log:
        return SNum(eng.trunc_log[i])
    return None


def _strip_toreal(t):
    """If t is ToReal(i) return the Int term i."""
    t2 = t
    if z3.is_app(t2) and t2.decl().kind() == z3.Z3_OP_TO_REAL:
        return t2.arg(0)
    return None
