"""C14 -- invalid colour input is reported, never raised (E2: CrossHair over the real API)."""
import os

from .. import e2

ID = "C14"
HARNESS = os.path.join(os.path.dirname(os.path.dirname(os.path.abspath(__file__))), "e2h", "c14_harness.py")

META = dict(
    explanation=(
        "CrossHair executes the real Color / ColorPair / make_readable_bulk symbolically on arbitrary short strings (free strings and "
        "near-miss CSS templates with free fragments) and on tuples/lists of length 0-5 whose elements are symbolic values of "
        "Union[int, float, str, None, bool]; z3 searches for an argument for which construction raises, or a valid object is not "
        "three ints in 0..255, or an invalid one lacks rgb None / a non-empty error / 'Not Readable' / (None, False) / an "
        "'invalid' bulk status that leaves the other entries intact."),
    functions=["colors.Color.__init__/_parse", "colors.ColorPair", "color_parser.parse_color_to_rgb", "color_parser.detect_color_format",
               "conversions.hsl_to_rgb", "conversions.hsla_to_rgb", "conversions.rgba_to_rgb", "conversions.hex_to_rgb", "cm_colors.make_readable_bulk"],
    bounds=["free strings: length <= 5; fragments inside CSS templates: length <= 3 (<= 2 when three fragments)", "tuples/lists: length 0..5, "
            "element types int/float/str/None/bool", "floats: CrossHair's real-based symbolic floats plus the concrete specials nan/inf/-inf/-0.0/1e308"],
    outside=["longer strings, nested containers, other element types", "valid pairs are not tuned here (make_readable on valid pairs is C01's subject)"],
    assumptions=["'Not confirmed' conditions are bounded bug-hunting: no counterexample on the paths CrossHair explored within the budget"],
)


def _key(r):
    return None


def main(tier, seed):
    return e2.main(ID, HARNESS, tier, seed, META, t_quick=30, t_thorough=90, key_fn=_key)
