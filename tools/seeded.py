#!/usr/bin/env python3
"""Confirm a sub-agent's seeded change and run the property's check(s) against it.

usage: tools/seeded.py <worktree> <PROPERTY_ID> <name> [CHECK_ID ...]
 1. the worktree's `git diff -- src` must equal MUTANT/patch.diff
 2. a fresh scratch copy of /repo HEAD + patch: existing test suite passes, demo exits 1; without patch: demo exits 0
 3. ./check <CHECK> --tier quick with VERIF_REPO=<scratch copy>  -> rc recorded
 4. everything is stored under /verif/seeded/<name>/ (patch.diff, demo.py, notes.md, meta.json); scratch copy removed
"""
import json, os, shutil, subprocess, sys, tempfile, time

wt, prop, name = sys.argv[1:4]
checks = sys.argv[4:] or [prop]
mdir = os.path.join(wt, "MUTANT")
patch = open(os.path.join(mdir, "patch.diff")).read()
cur = subprocess.run(["git", "-C", wt, "diff", "--", "src"], capture_output=True, text=True).stdout
meta = dict(property=prop, name=name, checks={}, confirmed={})
meta["confirmed"]["worktree_diff_equals_patch"] = (cur.strip() == patch.strip())
d = tempfile.mkdtemp(prefix="vf_seed_")
try:
    subprocess.run(["git", "-C", "/repo", "archive", "--format=tar", "HEAD", "-o", d + "/r.tar"], check=True)
    os.makedirs(d + "/repo")
    subprocess.run(["tar", "-xf", d + "/r.tar", "-C", d + "/repo"], check=True)
    R = d + "/repo"
    env = dict(os.environ, PYTHONPATH=R + "/src")
    demo = os.path.join(mdir, "demo.py")
    def run_demo():
        txt = open(demo).read().replace(wt, R)
        open(d + "/demo.py", "w").write(txt)
        p = subprocess.run(["/venv/bin/python", d + "/demo.py"], capture_output=True, text=True, env=env, cwd=R, timeout=1800)
        return p.returncode, (p.stdout + p.stderr)[-600:]
    rc0, out0 = run_demo()
    meta["confirmed"]["demo_without_change_rc"] = rc0
    ap = subprocess.run(["git", "apply", "--directory=" + "", os.path.join(mdir, "patch.diff")], cwd=R, capture_output=True, text=True)
    if ap.returncode != 0:
        ap = subprocess.run(["patch", "-p1", "-i", os.path.join(mdir, "patch.diff")], cwd=R, capture_output=True, text=True)
    meta["confirmed"]["patch_applies"] = ap.returncode == 0
    t = subprocess.run(["/venv/bin/python", "-m", "pytest", "-q", "-p", "no:cacheprovider", "-x"], cwd=R, env=env, capture_output=True, text=True)
    meta["confirmed"]["tests_with_change"] = t.stdout.strip().splitlines()[-1] if t.stdout.strip() else t.stderr[-200:]
    rc1, out1 = run_demo()
    meta["confirmed"]["demo_with_change_rc"] = rc1
    meta["confirmed"]["demo_output_tail"] = out1[-400:]
    for c in checks:
        t0 = time.time()
        p = subprocess.run(["/verif/check", c, "--tier", "quick"], env=dict(os.environ, VERIF_REPO=R), capture_output=True, text=True)
        lines = [l for l in p.stdout.splitlines() if l.startswith("VIOLATION") or l.startswith("  ") or " tier=" in l]
        meta["checks"][c] = dict(rc=p.returncode, wall_s=round(time.time() - t0, 1), output=lines[:6], stderr=p.stderr[-300:])
    subprocess.run(["git", "-C", "/verif", "checkout", "--", "evidence"], capture_output=True)
    subprocess.run(["git", "-C", "/verif", "clean", "-fdq", "replays"], capture_output=True)
finally:
    shutil.rmtree(d, ignore_errors=True)
out = os.path.join("/verif/seeded", name)
os.makedirs(out, exist_ok=True)
for f in ("patch.diff", "demo.py", "notes.md"):
    if os.path.exists(os.path.join(mdir, f)):
        shutil.copy(os.path.join(mdir, f), os.path.join(out, f))
meta["ran"] = "tools/seeded.py %s" % " ".join(sys.argv[1:])
json.dump(meta, open(os.path.join(out, "meta.json"), "w"), indent=1)
print(json.dumps(meta, indent=1)[:2500])
