"""C12 -- the bulk API is exactly a map of the single-pair API, in order."""
import itertools
from fractions import Fraction

import z3

from .. import api as apimod
from .. import ref, runner, symx
from ..harness import EPS, conj, disj, eq_rgb, implies, is_valid8
from ..symx import SBool, SNum, SymRGB, lift, sbool

ID = "C12"

KINDS = ["T2", "T3", "S2", "S3", "L3", "INV_S", "INV_T", "INV_BG"]

META = dict(
    explanation=(
        "The real make_readable_bulk is executed by symx on lists of symbolic entries (2- and 3-element, tuple / list / rgb()-string "
        "colours with symbolic numerals, unparseable strings, out-of-range tuples, invalid backgrounds; large flag, mode and "
        "very_readable symbolic) with ColorPair.make_readable replaced by a recording stub that returns a fresh symbolic colour in the "
        "entry's format.  Per path z3 proves: one result per entry, in order; the i-th result is the object the stub returned for a call "
        "made on a pair built from the i-th entry's own text/background/large with the bulk call's mode and very_readable; the status "
        "is the reference WCAG label of that returned colour on that entry's background at that entry's size; unparseable entries come "
        "back unchanged with a status that never claims readability and do not disturb their neighbours."),
    functions=["cm_colors.make_readable_bulk", "colors.ColorPair.__init__", "colors.ColorPair.is_valid", "colors.ColorPair.is_readable",
               "colors.Color._parse", "color_parser.parse_color_to_rgb", "contrast.get_wcag_level", "contrast.get_contrast_level",
               "contrast.calculate_contrast_ratio"],
    stubs=["ColorPair.make_readable -> recording stub: (fresh valid colour in the entry's format, fresh flag); what it returns is C01's subject",
           "srgb_to_linear -> UF LIN in [0,1] (C05.1)"],
    trusted=["z3", "vf/ref.py WCAG labels"],
    assumptions=["real model of doubles, guard band 1e-9 at the label thresholds"],
)


CHEAP = ["S2", "INV_S", "INV_T", "INV_BG"]


def jobs(tier):
    js = [dict(kind="bulk", shape=[])]
    for k in KINDS:
        js.append(dict(kind="bulk", shape=[k]))
    for a, b in itertools.product(KINDS, repeat=2):
        if tier == "quick" and not (a in CHEAP and b in CHEAP) and not ((a in CHEAP or b in CHEAP) and "INV_S" in (a, b)) \
                and (a, b) not in (("S3", "S2"), ("S2", "S3")):
            continue
        HEAVY_OK = {("S3", "S2"), ("S2", "S3")}   # two fully symbolic tuple entries cost > 30 min per shard: not in any tier
        if tier != "quick" and a not in CHEAP[1:] and b not in CHEAP[1:] and (a, b) != ("S2", "S2") and (a, b) not in HEAVY_OK:
            continue   # thorough: eight ordered pairs of two fully symbolic entries (each ~110 s x 6 shards); the rest adds cost, not coverage
        if a not in CHEAP[1:] and b not in CHEAP[1:] and (a != "S2" or b != "S2"):
            # two fully symbolic valid entries: ~1300 paths; split over 6 shards
            for i in range(6):
                js.append(dict(kind="bulk", shape=[a, b], shard=[i, 6, 60]))
        else:
            js.append(dict(kind="bulk", shape=[a, b]))
    if tier != "quick":
        for shape in itertools.product(KINDS, repeat=3):
            cheap = sum(1 for x in shape if x in CHEAP)
            if cheap == 3 and len(set(shape)) >= 2 and shape.count("S2") == 1 and shape[1] != "S2":
                js.append(dict(kind="bulk", shape=list(shape)))
    return js


def meta_for(tier):
    m = dict(META)
    m["bounds"] = ["list length 0..%d over the 7 entry kinds %s: %s" % (2 if tier == "quick" else 3, KINDS,
                   "all singletons, ordered pairs with at least one string/invalid entry" if tier == "quick" else
                   "as quick, plus triples of string/invalid entries"),
                   "colours: all 8-bit values; large / very_readable: symbolic booleans; mode: symbolic integer"]
    m["outside"] = ["longer lists (the loop body has no cross-entry state besides the report list, which is only built with save_report)",
                    "save_report=True (file effects, C17 n/a)", "translucent / hsl / hex spellings inside bulk entries (spelling handling is C07/C13)"]
    return m


def run_job(job):
    api = apimod.Api(config="real")
    eng, m = api.eng, api.m
    out = runner.JobOut(job)
    shape = job["shape"]
    calls = []
    CP = m.colors.ColorPair

    def stub(self, mode=1, very_readable=False, show=False, save_report=False):
        fmt = self.text._format
        col = eng.fresh_rgb("tuned")
        val = col if fmt == "rgb_tuple" else "rgb(%s, %s, %s)" % tuple(col)
        flag = eng.fresh_bool("ok")
        calls.append(dict(pair=self, mode=mode, very=very_readable, show=show, save=save_report, value=val, colour=col))
        return val, flag

    CP.make_readable = stub
    bulk = m.cm_colors.make_readable_bulk

    def mk_entry(i, kind):
        t = eng.rgb_var("t%d" % i)
        b = eng.rgb_var("b%d" % i)
        lg = eng.bool_var("large%d" % i)
        d = dict(kind=kind, t=t, b=b, valid=True, large=False)
        if kind == "T2":
            d["entry"] = (t, b)
        elif kind == "T3":
            d["entry"] = (t, b, lg)
            d["large"] = lg
        elif kind == "L3":
            d["entry"] = [list(t), b, lg]
            d["large"] = lg
        elif kind == "S2":
            d["entry"] = ("rgb(%s, %s, %s)" % tuple(t), "rgb(%s,%s,%s)" % tuple(b))
        elif kind == "S3":
            d["entry"] = ("rgb(%s, %s, %s)" % tuple(t), "rgb(%s,%s,%s)" % tuple(b), lg)
            d["large"] = lg
        elif kind == "INV_S":
            d["entry"] = ("not-a-colour", b, lg)
            d["valid"] = False
        elif kind == "INV_T":
            bad = eng.int_var("bad%d" % i, 256, 100000, small=False)
            d["entry"] = ((bad, t[1], t[2]), b)
            d["valid"] = False
        elif kind == "INV_BG":
            d["entry"] = (t, "rgb(1,2", lg)
            d["valid"] = False
        return d

    def fn():
        calls.clear()
        api.fmt_calls.clear()
        if hasattr(api, "_memo"):
            api._memo.clear()
        entries = [mk_entry(i, k) for i, k in enumerate(shape)]
        mode = eng.int_var("mode", 0, 2)
        very = eng.bool_var("very")
        res = bulk([e["entry"] for e in entries], mode=mode, very_readable=very)
        eng.oblige("one result per entry", sbool(isinstance(res, list) and len(res) == len(entries)))
        if not isinstance(res, list) or len(res) != len(entries):
            return res
        nvalid = [e for e in entries if e["valid"]]
        eng.oblige("exactly one make_readable call per parseable entry", sbool(len(calls) == len(nvalid)))
        ci = 0
        for i, (e, r) in enumerate(zip(entries, res)):
            if not (isinstance(r, tuple) and len(r) == 2):
                eng.oblige("entry %d: result is a (colour, status) pair" % i, sbool(False))
                continue
            if not e["valid"]:
                eng.oblige("entry %d (%s): unparseable entry returned unchanged" % (i, e["kind"]), sbool(r[0] is e["entry"][0]))
                eng.oblige("entry %d (%s): status never claims readability" % (i, e["kind"]),
                           sbool(isinstance(r[1], str) and r[1].lower() not in ("readable", "very readable")))
                continue
            if ci >= len(calls):
                continue
            c = calls[ci]
            ci += 1
            p = c["pair"]
            eng.oblige("entry %d (%s): result is what make_readable returned for this entry" % (i, e["kind"]), sbool(r[0] is c["value"]))
            lg = e["large"]
            same_large = sbool(p.large is lg) if not isinstance(lg, bool) else sbool(p.large is lg or p.large == lg)
            eng.oblige("entry %d (%s): pair built from this entry's own text / background / size" % (i, e["kind"]),
                       conj(eq_rgb(p.text.rgb, e["t"]), eq_rgb(p.bg.rgb, e["b"]), same_large))
            eng.oblige("entry %d (%s): mode and very_readable forwarded, no preview/report side options" % (i, e["kind"]),
                       sbool(c["mode"] is mode and c["very"] is very and c["show"] is False and c["save"] is False))
            # status = reference label of the RETURNED colour on this entry's background at this entry's size
            col = c["colour"]
            st = r[1]
            for large_case in ((False, True) if not isinstance(lg, bool) else (lg,)):
                aa, aaa = ref.wcag_thresholds(large_case)
                guard = sbool(True) if isinstance(lg, bool) else (lg if large_case else ~lg)
                want_very = api.ratio_ge(col, e["b"], aaa, EPS)
                not_very = api.ratio_lt(col, e["b"], aaa, EPS)
                want_read = api.ratio_ge(col, e["b"], aa, EPS)
                not_read = api.ratio_lt(col, e["b"], aa, EPS)
                eng.oblige("entry %d (%s): status is the WCAG label of the returned colour (large=%s)" % (i, e["kind"], large_case),
                           implies(guard, conj(implies(want_very, sbool(st == "very readable")),
                                               implies(conj(want_read, not_very), sbool(st == "readable")),
                                               implies(not_read, sbool(st == "not readable")),
                                               sbool(st in ("very readable", "readable", "not readable")))))
        return res

    def on_path(pr):
        if pr.outcome == "exc":
            pr.obligations = [("no exception (%s: %s)" % (type(pr.exc).__name__, str(pr.exc)[:100]), z3.BoolVal(False), {})]
        runner.discharge(ID, job, pr, out, "bulk")

    eng.explore(fn, on_path, shard=tuple(job["shard"]) if job.get("shard") else None)
    out.d["stats"] = dict(eng.stats)
    return out.d


# ----------------------------------------------------------------- replay on the real code (real make_readable)

def replay_bulk(inp):
    from cm_colors import make_readable_bulk, ColorPair
    job = inp["_job"]
    shape = job["shape"]
    entries = []
    for i, k in enumerate(shape):
        t = tuple(int(inp.get("t%d%s" % (i, c), 0)) for c in "rgb")
        b = tuple(int(inp.get("b%d%s" % (i, c), 255)) for c in "rgb")
        lg = bool(inp.get("large%d" % i, False))
        if k == "T2":
            entries.append((t, b))
        elif k == "T3":
            entries.append((t, b, lg))
        elif k == "L3":
            entries.append([list(t), b, lg])
        elif k == "S2":
            entries.append(("rgb(%d, %d, %d)" % t, "rgb(%d,%d,%d)" % b))
        elif k == "S3":
            entries.append(("rgb(%d, %d, %d)" % t, "rgb(%d,%d,%d)" % b, lg))
        elif k == "INV_S":
            entries.append(("not-a-colour", b, lg))
        elif k == "INV_T":
            entries.append(((int(inp.get("bad%d" % i, 300)), t[1], t[2]), b))
        elif k == "INV_BG":
            entries.append((t, "rgb(1,2", lg))
    mode = int(inp.get("mode", 1))
    very = bool(inp.get("very", False))
    try:
        res = make_readable_bulk(entries, mode=mode, very_readable=very)
    except Exception as e:
        return True, "make_readable_bulk(%r, mode=%r, very_readable=%r) raised %r" % (entries, mode, very, e)
    bad = []
    if len(res) != len(entries):
        bad.append("length %d != %d" % (len(res), len(entries)))
    for i, (e, r) in enumerate(zip(entries, res)):
        large = bool(e[2]) if len(e) == 3 else False
        p = ColorPair(e[0], e[1], large)
        if not p.is_valid:
            if r[0] is not e[0] and r[0] != e[0] or str(r[1]).lower() in ("readable", "very readable"):
                bad.append("entry %d invalid but got %r" % (i, r))
            continue
        want, _ = p.make_readable(mode=mode, very_readable=very)
        if r[0] != want:
            bad.append("entry %d: bulk colour %r != single-pair %r" % (i, r[0], want))
        J = apimod.css_readback(r[0])
        if J is not None:
            lab = {"AAA": "very readable", "AA": "readable", "FAIL": "not readable"}[ref.wcag_label(ref.wcag_ratio(J, p.bg.rgb), large)]
            near = any(abs(ref.wcag_ratio(J, p.bg.rgb) - th) < 1e-9 for th in (3.0, 4.5, 7.0))
            if r[1] != lab and not near:
                bad.append("entry %d: status %r, WCAG label of %r on %r (large=%r) is %r" % (i, r[1], J, p.bg.rgb, large, lab))
    return bool(bad), "make_readable_bulk(%r, mode=%r, very_readable=%r) = %r :: %s" % (entries, mode, very, res, "; ".join(bad))


def _ladder(job):
    from ..ladder import pairs
    ps = list(pairs())
    n = len(job["shape"])
    # pairs that already pass but sit just below the next label's threshold (the status is computed for the returned colour)
    from ..ladder import NEAR_THRESHOLD
    for t, b in NEAR_THRESHOLD:
        for large in (True, False):
            d = dict(mode=1, very=False)
            for i in range(n):
                d.update({"t%dr" % i: t[0], "t%dg" % i: t[1], "t%db" % i: t[2], "b%dr" % i: b[0], "b%dg" % i: b[1], "b%db" % i: b[2],
                          "large%d" % i: large, "bad%d" % i: 300})
            yield d
    # repeated colours with different sizes first (state carried from one entry to the next shows up there)
    for t, b in ps[::5]:
        for mode in (1, 0):
            d = dict(mode=mode, very=False)
            for i in range(n):
                d.update({"t%dr" % i: t[0], "t%dg" % i: t[1], "t%db" % i: t[2], "b%dr" % i: b[0], "b%dg" % i: b[1], "b%db" % i: b[2],
                          "large%d" % i: (i % 2 == 0), "bad%d" % i: 300})
            yield d
    for k in range(0, len(ps) - n, 7):
        for large in (False, True):
            for mode in (0, 1):
                d = dict(mode=mode, very=False)
                for i in range(n):
                    t, b = ps[(k + 13 * i) % len(ps)]
                    d.update({"t%dr" % i: t[0], "t%dg" % i: t[1], "t%db" % i: t[2], "b%dr" % i: b[0], "b%dg" % i: b[1], "b%db" % i: b[2],
                              "large%d" % i: large if i % 2 == 0 else not large, "bad%d" % i: 300})
                yield d


REPLAYS = {"bulk": replay_bulk}
LADDER = {"bulk": _ladder}


def main(tier, seed):
    return runner.main(ID, __name__, jobs(tier), tier, seed, meta_for(tier))
