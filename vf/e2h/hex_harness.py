"""CrossHair contract functions for the hex clauses of C06 (format -> parse identity) and C07 (hex parsing).

Hex digits cannot be symbolic in symx (str.format('02x') / int(s, 16) work on concrete strings), and CrossHair realises
the integers when they are formatted: these conditions are BOUNDED BUG-HUNTING (the solver proposes the values that are
tried), not a proof.  The reference value of a hex string is computed here from a digit table, independently.
"""
import os
import sys
from typing import Tuple

sys.path.insert(0, os.path.join(os.environ.get("VERIF_REPO", "/repo"), "src"))

from cm_colors.core.conversions import hex_to_rgb, rgb_to_hex  # noqa: E402
from cm_colors.core.color_parser import parse_color_to_rgb, format_color  # noqa: E402
from cm_colors import Color  # noqa: E402

DIG = "0123456789abcdef"


def _val(two):
    return DIG.index(two[0].lower()) * 16 + DIG.index(two[1].lower())


def _ref(h):
    h = h.lstrip("#")
    if len(h) == 3:
        h = h[0] * 2 + h[1] * 2 + h[2] * 2
    return (_val(h[0:2]), _val(h[2:4]), _val(h[4:6]))


def prop_format_parse_identity(r: int, g: int, b: int) -> bool:
    """
    pre: 0 <= r <= 255 and 0 <= g <= 255 and 0 <= b <= 255
    post: _
    """
    s = rgb_to_hex((r, g, b))
    if not (isinstance(s, str) and len(s) == 7 and s[0] == "#" and all(c in DIG for c in s[1:])):
        return False
    return (_ref(s) == (r, g, b) and hex_to_rgb(s) == (r, g, b) and parse_color_to_rgb(s) == (r, g, b)
            and format_color((r, g, b), "hex") == s and Color((r, g, b)).to_hex() == s)


def prop_one_channel_sweep(k: int, pos: int) -> bool:
    """
    pre: 0 <= k <= 255 and 0 <= pos <= 2
    post: _
    """
    t = [17, 34, 51]
    t[pos] = k
    t = tuple(t)
    s = rgb_to_hex(t)
    return _ref(s) == t and parse_color_to_rgb(s) == t and parse_color_to_rgb(s.upper()) == t and parse_color_to_rgb(s[1:]) == t


def prop_six_digit_parse(a: int, b: int, c: int, d: int, e: int, f: int, upper: bool, hashed: bool) -> bool:
    """
    pre: 0 <= a < 16 and 0 <= b < 16 and 0 <= c < 16 and 0 <= d < 16 and 0 <= e < 16 and 0 <= f < 16
    post: _
    """
    h = DIG[a] + DIG[b] + DIG[c] + DIG[d] + DIG[e] + DIG[f]
    if upper:
        h = h.upper()
    s = ("#" + h) if hashed else h
    want = (a * 16 + b, c * 16 + d, e * 16 + f)
    return parse_color_to_rgb(s) == want and hex_to_rgb(s) == want and Color(s).rgb == want


def prop_three_digit_parse(a: int, b: int, c: int, upper: bool, hashed: bool) -> bool:
    """
    pre: 0 <= a < 16 and 0 <= b < 16 and 0 <= c < 16
    post: _
    """
    h = DIG[a] + DIG[b] + DIG[c]
    if upper:
        h = h.upper()
    s = ("#" + h) if hashed else h
    want = (a * 17, b * 17, c * 17)
    named = s.lower() in ("tan", "red")  # never: 3 hex digits are not colour names, kept for clarity
    return named or (parse_color_to_rgb(s) == want and Color(s).rgb == want)
