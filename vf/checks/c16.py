"""C16 -- asking for less never fails: mode 2 covers mode 1, readable covers very readable."""
from fractions import Fraction

import z3

from .. import api as apimod
from .. import ref, runner, stubs, symx
from ..harness import EPS, conj, disj, eq_rgb, implies, is_valid8
from ..symx import SBool, SNum, SymRGB, lift, sbool

ID = "C16"

META = dict(
    explanation=(
        "Two runs of the real code are compared inside one symbolic execution, with the numeric search replaced by DETERMINISTIC "
        "uninterpreted functions of all their arguments (same arguments -> same term).  Clause 1: check_and_fix_contrast(mode=1) "
        "and (mode=2) on the same symbolic pair and settings, generate_accessible_color = UF of (text, bg, large, target, min, "
        "schedule): on every path where mode 1 reports success z3 proves mode 2 returns the identical colour with success.  "
        "Clause 2: check_and_fix_contrast(premium=True) vs (premium=False) for the same pair, mode and size, with the real "
        "generate_accessible_color executed and binary_search_lightness / gradient_descent_oklch = UFs of (text, bg, tolerance, "
        "target) (they never see the minimum): premium success => ordinary success."),
    functions=["optimisation.check_and_fix_contrast", "optimisation._strategy_strict", "optimisation._strategy_recursive",
               "optimisation._strategy_relaxed", "optimisation.generate_accessible_color (clause 2)", "colors.Color._parse (tuple path)"],
    stubs=["calculate_contrast_ratio -> UF CR (C05.2)", "calculate_delta_e_2000 -> UF DE",
           "clause 1: generate_accessible_color -> deterministic UF of all its arguments",
           "clause 2: binary_search_lightness / gradient_descent_oklch -> deterministic UFs of (text, bg, tolerance, target): 'None' or a valid colour",
           "the searches being functions of their arguments is itself property C15 (not applicable here) -- stated assumption"],
    trusted=["z3", "purity of the search routines (C15, assumed)"],
    assumptions=["search routines are deterministic functions of their arguments"],
)


def bounds(tier):
    return dict(ks=2, it=2 if tier == "quick" else 3)


def jobs(tier):
    js = []
    for large in (False, True):
        for very in (False, True):
            js.append(dict(kind="m1m2", large=large, very=very))
    b = bounds(tier)
    for large in (False, True):
        if tier == "quick":
            js.append(dict(kind="prem", mode=0, large=large, ks=2))
            js.append(dict(kind="prem", mode=1, large=large, ks=1, it=2))
        else:
            js.append(dict(kind="prem", mode=0, large=large, ks=2))
            js.append(dict(kind="prem", mode=1, large=large, ks=1, it=2))
            js.append(dict(kind="prem", mode=1, large=large, ks=1, it=3))
    return js


def meta_for(tier):
    b = bounds(tier)
    m = dict(META)
    m["bounds"] = ["all 2^48 pairs (six symbolic 8-bit channels), large_text x very_readable enumerated",
                   "clause 1: all 10 recursive iterations of mode 1; mode 2 is followed as far as the mode-1 success path needs",
                   "clause 2: the tolerance schedules the strategies pass are truncated to their first %d and last entries (bounded model of the "
                   "schedule loop); mode 0 fully, mode 1 with the recursion truncated to %d iterations (thorough adds 3 iterations with "
                   "1-entry schedules); mode 2 reduces to mode 1 plus clause 1" % (b["ks"] - 1, b["it"])]
    m["outside"] = ["longer schedules / more recursive iterations in clause 2 (same loop bodies)", "mode 2 in clause 2"]
    return m


def _tokens_rgb(eng, s):
    import re
    m = re.fullmatch(r"rgb\((§[a-z]+§|\d+), (§[a-z]+§|\d+), (§[a-z]+§|\d+)\)", s) if isinstance(s, str) else None
    if m:
        return tuple(eng.tokens[g] if g in eng.tokens else lift(int(g)) for g in m.groups())
    if isinstance(s, tuple):
        return s
    return None


def run_job(job):
    kind = job["kind"]
    out = runner.JobOut(job)
    large = job["large"]
    if kind == "m1m2":
        api = apimod.Api(config="uf", g_kwargs={"deterministic": True}, real_rec=True)
        eng, opt = api.eng, api.m.optimisation
        very = job["very"]

        def fn():
            t, b = eng.rgb_var("t"), eng.rgb_var("b")
            v1, s1 = opt.check_and_fix_contrast(t, b, large, 1, very)
            if not sbool(s1):
                eng.oblige("mode 1 failed: nothing to show", sbool(True))
                return None
            v2, s2 = opt.check_and_fix_contrast(t, b, large, 2, very)
            c1, c2 = _tokens_rgb(eng, v1), _tokens_rgb(eng, v2)
            eng.oblige("mode 1 success => mode 2 success", sbool(s2))
            eng.oblige("mode 1 success => mode 2 returns the identical colour",
                       sbool(c1 is not None and c2 is not None) & (eq_rgb(c1, c2) if c1 is not None and c2 is not None else sbool(False)))
            return v2
        rk = "m1m2"
    else:
        mode = job["mode"]
        caps = {10: job.get("it", 10)} if mode == 1 else {}
        api = apimod.Api(config="uf", caps=caps, real_rec=True)
        eng, opt = api.eng, api.m.optimisation
        st = api.st
        I, R = z3.IntSort(), z3.RealSort()
        ks = job["ks"]

        def det_search(name):
            fn_none = z3.Function("S_%s_none" % name, I, I, I, I, I, I, R, R, z3.BoolSort())
            fch = [z3.Function("S_%s_%s" % (name, ch), I, I, I, I, I, I, R, R, I) for ch in "rgb"]

            def stub(text_rgb, bg_rgb, delta_e_threshold=2.0, target_contrast=7.0, large_text=False, *a, **k):
                key = [lift(x).t for x in tuple(text_rgb) + tuple(bg_rgb)] + [lift(delta_e_threshold).real(), lift(target_contrast).real()]
                if SBool(fn_none(*key)):
                    return None
                outs = []
                for f in fch:
                    y = f(*key)
                    eng.add_side(z3.And(y >= 0, y <= 255))
                    outs.append(SNum(y))
                return SymRGB(outs)
            return stub

        opt.binary_search_lightness = det_search("bis")
        opt.gradient_descent_oklch = det_search("gd")
        real_G = api.real_G

        def G_trunc(text_rgb, bg_rgb, large=False, target_contrast=None, min_contrast=None, delta_e_sequence=None):
            # bounded model of the schedule: first ks-1 entries and the last one (keeps 'last element' tests meaningful)
            seq = delta_e_sequence
            if seq is None:
                seq = [0.8, 1.0, 1.2, 1.4, 1.6, 1.8, 2.0, 2.1, 2.2, 2.3, 2.4, 2.5, 2.7, 3.0, 3.5, 4.0, 5.0]
            seq = list(seq[:ks - 1]) + [seq[-1]] if len(seq) > ks else list(seq)
            return real_G(text_rgb, bg_rgb, large, target_contrast, min_contrast, seq)

        opt.generate_accessible_color = G_trunc

        def fn():
            t, b = eng.rgb_var("t"), eng.rgb_var("b")
            vp, sp = opt.check_and_fix_contrast(t, b, large, mode, True)
            if not sbool(sp):
                eng.oblige("premium failed: nothing to show", sbool(True))
                return None
            vo, so = opt.check_and_fix_contrast(t, b, large, mode, False)
            eng.oblige("very_readable success => ordinary success", sbool(so))
            return vo
        rk = "prem"

    def on_path(pr):
        if pr.outcome == "exc":
            pr.obligations = [("no exception (%s: %s)" % (type(pr.exc).__name__, str(pr.exc)[:100]), z3.BoolVal(False), {})]
        runner.discharge(ID, job, pr, out, rk)

    eng.explore(fn, on_path, shard=tuple(job["shard"]) if job.get("shard") else None)
    out.d["stats"] = dict(eng.stats)
    return out.d


# ----------------------------------------------------------------- replays

def _rgb(inp, p):
    return (int(inp[p + "r"]), int(inp[p + "g"]), int(inp[p + "b"]))


def replay_m1m2(inp):
    from cm_colors.core.colors import ColorPair
    job = inp["_job"]
    t, b = _rgb(inp, "t"), _rgb(inp, "b")
    r1 = ColorPair(t, b, job["large"]).make_readable(mode=1, very_readable=job["very"])
    if not r1[1]:
        return False, "mode 1 fails on %r/%r" % (t, b)
    r2 = ColorPair(t, b, job["large"]).make_readable(mode=2, very_readable=job["very"])
    return r2 != r1, "mode 1 -> %r, mode 2 -> %r on %r/%r large=%r very=%r" % (r1, r2, t, b, job["large"], job["very"])


def replay_prem(inp):
    from cm_colors.core.colors import ColorPair
    job = inp["_job"]
    t, b = _rgb(inp, "t"), _rgb(inp, "b")
    rp = ColorPair(t, b, job["large"]).make_readable(mode=job["mode"], very_readable=True)
    if not rp[1]:
        return False, "very_readable fails on %r/%r" % (t, b)
    ro = ColorPair(t, b, job["large"]).make_readable(mode=job["mode"], very_readable=False)
    return not ro[1], "very_readable -> %r, ordinary -> %r on %r/%r large=%r mode=%r" % (rp, ro, t, b, job["large"], job["mode"])


def _ladder(job):
    from ..ladder import pairs
    for t, b in pairs():
        yield dict(tr=t[0], tg=t[1], tb=t[2], br=b[0], bg=b[1], bb=b[2])


REPLAYS = {"m1m2": replay_m1m2, "prem": replay_prem}
LADDER = {"m1m2": _ladder, "prem": _ladder}


def main(tier, seed):
    return runner.main(ID, __name__, jobs(tier), tier, seed, meta_for(tier))
