"""Shared helpers for the check modules."""
from fractions import Fraction

import z3

from . import repo, symx
from .symx import SBool, SNum, SymRGB, sbool

EPS = Fraction(1, 10 ** 9)

CORE = ["cm_colors.core.conversions", "cm_colors.core.contrast", "cm_colors.core.color_parser",
        "cm_colors.core.color_metrics", "cm_colors.core.colors", "cm_colors.core.optimisation",
        "cm_colors.core.cm_colors"]


class Mods:
    pass


def load_core(caps=None, inject=True):
    mods = repo.load(*CORE)
    m = Mods()
    for name, mod in zip(CORE, mods):
        setattr(m, name.rsplit(".", 1)[1], mod)
        if inject:
            symx.inject(mod, caps=caps)
    return m


def close(a, b, eps=EPS):
    d = a - b
    return sbool(d <= eps) & sbool(d >= -eps)


def implies(a, b):
    return SBool(z3.Implies(symx._b(sbool(a)), symx._b(sbool(b))))


def conj(*xs):
    return SBool(z3.And(*[symx._b(sbool(x)) for x in xs]))


def disj(*xs):
    return SBool(z3.Or(*[symx._b(sbool(x)) for x in xs]))


def eq_rgb(a, b):
    return conj(*[symx.lift(x) == y for x, y in zip(a, b)])


def is_valid8(rgb):
    """three ints in 0..255 (as a formula; also checks python-level shape)"""
    if not isinstance(rgb, tuple) or len(rgb) != 3:
        return sbool(False)
    cs = []
    for c in rgb:
        if isinstance(c, SNum):
            if not c.is_int:
                return sbool(False)
            cs.append(sbool(c >= 0) & sbool(c <= 255))
        elif isinstance(c, int) and not isinstance(c, bool):
            cs.append(sbool(0 <= c <= 255))
        else:
            return sbool(False)
    return conj(*cs)


def dec(x, places=9):
    """Fraction/int -> plain decimal string (rounded to `places` decimals), for replays"""
    f = Fraction(x)
    neg = f < 0
    f = abs(f)
    scaled = round(f * 10 ** places)
    s = str(scaled).rjust(places + 1, "0")
    out = s[:-places] + "." + s[-places:]
    out = out.rstrip("0").rstrip(".")
    if out == "":
        out = "0"
    return ("-" if neg and scaled != 0 else "") + out


def exc_obligation(pr, allowed=()):
    """obligation list for a path that ended in an exception of the code under test"""
    if pr.outcome == "exc" and not isinstance(pr.exc, allowed):
        return [("no exception (%s: %s)" % (type(pr.exc).__name__, str(pr.exc)[:100]), z3.BoolVal(False), {})]
    return None
