"""C13 -- translucent text is judged as it will be seen over its own background."""
from fractions import Fraction

import z3

from .. import api as apimod
from .. import ref, runner, stubs, symx
from ..harness import EPS, close, conj, dec, disj, eq_rgb, implies, is_valid8, load_core
from ..symx import SBool, SNum, SymRGB, lift, pre_round, sbool
from . import c07

ID = "C13"
TOL = Fraction(3, 2)

META = dict(
    explanation=(
        "The real ColorPair constructor (Color._parse -> parse_color_to_rgb -> rgba_to_rgb / hsla_to_rgb) is executed by symx on "
        "rgba() / hsla() strings and RGBA tuples with symbolic channels, a free real alpha in [0,1] and a symbolic opaque background "
        "(given as a tuple or as an rgb() string), and on translucent backgrounds.  Per path z3 proves: the stored text colour is a "
        "valid 8-bit colour within 1.5 of the exact per-channel source-over blend over THAT pair's background; alpha 1 gives the "
        "colour itself and alpha 0 the background; a translucent background is within 1.5 of its blend over white; is_readable is the "
        "reference WCAG label of (composite, background); make_readable hands exactly (composite, background, size, mode, "
        "very_readable) to the fixing routine."),
    functions=["colors.ColorPair.__init__", "colors.Color._parse", "colors.ColorPair.is_readable", "colors.ColorPair.make_readable (argument hand-over)",
               "color_parser.parse_color_to_rgb", "color_parser._parse_number_token", "conversions.rgba_to_rgb", "conversions.hsla_to_rgb",
               "conversions.hsl_to_rgb", "contrast.get_wcag_level"],
    stubs=["optimisation.check_and_fix_contrast -> recorder (what it returns is C01's subject)", "srgb_to_linear -> UF LIN (C05.1)"],
    bounds=["channels / background: all 8-bit values; alpha: every real in [0,1]; hue in [0,360], S and L in [0,100] (reals)",
            "spellings: 'rgba(r, g, b, a)', 'hsla(h, s%, l%, a)', (r, g, b, a) tuples; background as tuple or 'rgb(r,g,b)' string",
            "real model of doubles (guard 1e-9)"],
    outside=["other spellings of translucent colours (C07 covers the parser's spelling variants)", "hsla tuples (not in the property)"],
    trusted=["z3", "vf/ref.py source-over and CSS hsl reference"],
    assumptions=["float(str) of a plain decimal numeral denotes the numeral's value"],
)


def jobs(tier):
    js = []
    for kind in ("rgba-str", "rgba-tuple"):
        for bg in ("tuple", "str", "list", "float", "pct"):
            js.append(dict(kind=kind, bg=bg))
    for bg in ("float", "pct"):
        if tier == "quick":
            js.append(dict(kind="hsla-str", bg=bg, sector=True))    # hue restricted to [0, 60]: which background is used does not depend on the sector
        else:
            for i in range(6):
                js.append(dict(kind="hsla-str", bg=bg, shard=[i, 6, 22]))
    for bg in ("tuple", "str"):
        for i in range(4):
            js.append(dict(kind="hsla-str", bg=bg, shard=[i, 4, 14]))
    js.append(dict(kind="numre"))   # the numeral-pattern lemma the token abstraction rests on (shared with C07)
    js.append(dict(kind="bg-rgba"))
    js.append(dict(kind="bg-hsla"))
    return js


def run_job(job):
    if job["kind"] == "numre":
        out = runner.JobOut(job)
        c07._numre_job(job, out, check_id=ID)
        return out.d
    m = load_core()
    eng = symx.Engine()
    st = stubs.Stubs(eng)
    out = runner.JobOut(job)
    m.contrast.srgb_to_linear = st.lin
    rec = []

    def caf(text, bg, large=False, mode=1, premium=False):
        rec.append((text, bg, large, mode, premium))
        return m.conversions.rgbint_to_string(text), True

    m.optimisation.check_and_fix_contrast = caf
    m.conversions.rgb_to_hex = lambda rgb: "#§hex§"      # result formatting is C06's subject
    m.conversions.rgb_to_hsl = lambda rgb: "hsl(§hsl§)"
    kind = job["kind"]

    def ref_label(T, B, large):
        def lum(rgb):
            r, g, b = [st.lin(x / 255.0) for x in rgb]
            return 0.2126 * r + 0.7152 * g + 0.0722 * b
        la, lb = lum(T), lum(B)
        n, d = symx.smax(la, lb) + 0.05, symx.smin(la, lb) + 0.05
        aa, aaa = ref.wcag_thresholds(large)
        return n, d, aa, aaa

    def fn():
        rec.clear()
        a, b, c = (eng.int_var("t" + n, 0, 255) for n in "rgb")
        al = eng.real_var("ta", 0, 1)
        B0 = eng.rgb_var("b")
        if kind.startswith("bg-"):
            # translucent BACKGROUND: composited over white
            if kind == "bg-rgba":
                bgv = "rgba(%s, %s, %s, %s)" % (a, b, c, al)
                pair = m.colors.ColorPair(B0, bgv)
                eng.oblige("pair valid", sbool(pair.is_valid))
                blend = ref.source_over((a, b, c), al, (255, 255, 255))
                for ch, o, e in zip("rgb", pair.bg.rgb, blend):
                    eng.oblige("translucent background %s within 1.5 of its blend over white" % ch, close(lift(o), e, TOL + EPS))
            else:
                h, s_, l_ = eng.real_var("th", 0, 360), eng.real_var("ts", 0, 100), eng.real_var("tl", 0, 100)
                bgv = "hsla(%s, %s%%, %s%%, %s)" % (h, s_, l_, al)
                pair = m.colors.ColorPair(B0, bgv)
                eng.oblige("pair valid", sbool(pair.is_valid))
                c07.hsla_obligations(eng, pair.bg.rgb, h, s_, l_, al, (255, 255, 255), "translucent hsla background")
            eng.oblige("text unaffected", eq_rgb(pair.text.rgb, B0))
            return pair
        # the background in several spellings; whatever it is parsed to (pair.bg.rgb) is "the pair's own background"
        exact_bg = True
        if job["bg"] == "tuple":
            bgv = B0
        elif job["bg"] == "list":
            bgv = list(B0)
        elif job["bg"] == "str":
            bgv = "rgb(%s,%s,%s)" % tuple(B0)
        elif job["bg"] == "float":
            bgv = tuple(eng.real_var("f" + n, 0, 1) for n in "rgb")      # floats in [0,1]: the library scales them by 255
            exact_bg = False
        else:
            bgv = tuple("%s%%" % eng.numeral(eng.real_var("p" + n, 0, 100)) for n in "rgb")   # percentage strings
            exact_bg = False
        if kind == "rgba-str":
            text = "rgba(%s, %s, %s, %s)" % (a, b, c, al)
        elif kind == "rgba-tuple":
            text = (a, b, c, al)
        else:
            h, s_, l_ = eng.real_var("th", 0, 60 if job.get("sector") else 360), eng.real_var("ts", 0, 100), eng.real_var("tl", 0, 100)
            text = "hsla(%s, %s%%, %s%%, %s)" % (h, s_, l_, al)
        large = eng.bool_var("large")
        pair = m.colors.ColorPair(text, bgv, large)
        eng.oblige("pair valid", sbool(pair.is_valid))
        if not pair.is_valid:
            return pair
        T, B = pair.text.rgb, pair.bg.rgb
        if exact_bg:
            eng.oblige("background parsed to itself", eq_rgb(B, B0))
        else:
            eng.oblige("background is a valid 8-bit colour", is_valid8(tuple(B)))
            B0 = B            # composited over the pair's own (parsed) background
        eng.oblige("composite is a valid 8-bit colour", is_valid8(tuple(T)))
        if kind.startswith("rgba"):
            blend = ref.source_over((a, b, c), al, B0)
            for ch, o, e in zip("rgb", T, blend):
                eng.oblige("composite %s within 1.5 of source-over on the pair's own background" % ch, close(lift(o), e, TOL + EPS))
            eng.oblige("alpha 1 gives the colour itself", implies(al == 1, eq_rgb(T, (a, b, c))))
            eng.oblige("alpha 0 gives the background", implies(al == 0, eq_rgb(T, B0)))
        else:
            exact = c07.hsla_obligations(eng, T, h, s_, l_, al, B0, "composite hsla")
            for ch, o, e in zip("rgb", T, exact):
                eng.oblige("alpha 1 gives the colour itself (%s: nearest 8-bit of the CSS value)" % ch,
                           implies(al == 1, close(lift(o), e, Fraction(1, 2) + EPS)))
            eng.oblige("alpha 0 gives the background", implies(al == 0, eq_rgb(T, B0)))
        # readability is judged on the composite (label clause on the rgba jobs: it reads the stored composite,
        # whatever spelling produced it; on the hsla jobs it would only multiply the 46 parser paths by 6)
        lab = pair.is_readable if kind.startswith("rgba") else None
        for lc in ((False, True) if lab is not None else ()):
            n, d, aa, aaa = ref_label(T, B, lc)
            g = large if lc else ~large
            want = conj(implies(sbool(n >= (aaa + EPS) * d), sbool(lab == "Very Readable")),
                        implies(conj(n >= (aa + EPS) * d, n < (aaa - EPS) * d), sbool(lab == "Readable")),
                        implies(sbool(n < (aa - EPS) * d), sbool(lab == "Not Readable")))
            eng.oblige("is_readable is the WCAG label of (composite, background) (large=%s)" % lc, implies(g, want))
        mode = eng.int_var("mode", 0, 2)
        very = eng.bool_var("very")
        pair.make_readable(mode=mode, very_readable=very)
        eng.oblige("make_readable fixes the composite over the pair's background with the given settings",
                   sbool(len(rec) == 1 and rec[0][0] is T and rec[0][1] is B and rec[0][2] is large and rec[0][3] is mode and rec[0][4] is very))
        return pair

    def on_path(pr):
        if pr.outcome == "exc":
            pr.obligations = [("no exception (%s: %s)" % (type(pr.exc).__name__, str(pr.exc)[:100]), z3.BoolVal(False), {})]
        runner.discharge(ID, job, pr, out, "pair")

    eng.explore(fn, on_path, shard=tuple(job["shard"]) if job.get("shard") else None)
    out.d["stats"] = dict(eng.stats)
    return out.d


# ----------------------------------------------------------------- replay

def replay_pair(inp):
    from cm_colors.core.colors import ColorPair
    job = inp["_job"]
    kind = job["kind"]
    g = lambda k, d=0: inp.get(k, d)
    rgb = (int(g("tr")), int(g("tg")), int(g("tb")))
    al = float(dec(g("ta")))
    B0 = (int(g("br", 255)), int(g("bg", 255)), int(g("bb", 255)))
    hsl = (float(dec(g("th"))), float(dec(g("ts"))), float(dec(g("tl"))))
    bad = []
    if kind.startswith("bg-"):
        bgv = "rgba(%d, %d, %d, %s)" % (rgb + (dec(g("ta")),)) if kind == "bg-rgba" else "hsla(%s, %s%%, %s%%, %s)" % (dec(g("th")), dec(g("ts")), dec(g("tl")), dec(g("ta")))
        pair = ColorPair(B0, bgv)
        if not pair.is_valid:
            return True, "ColorPair(%r, %r) invalid: %r" % (B0, bgv, pair.errors)
        col = rgb if kind == "bg-rgba" else tuple(255 * x for x in ref.css_hsl_exact(hsl[0], hsl[1] / 100, hsl[2] / 100))
        blend = ref.source_over(col, al, (255, 255, 255))
        if any(abs(o - e) > 1.5 + 1e-9 for o, e in zip(pair.bg.rgb, blend)) or pair.text.rgb != B0:
            bad.append("background %r vs blend over white %r" % (pair.bg.rgb, blend))
        return bool(bad), "ColorPair(%r, %r): bg.rgb=%r :: %s" % (B0, bgv, pair.bg.rgb, bad)
    if job["bg"] == "tuple":
        bgv = B0
    elif job["bg"] == "list":
        bgv = list(B0)
    elif job["bg"] == "str":
        bgv = "rgb(%d,%d,%d)" % B0
    elif job["bg"] == "float":
        bgv = tuple(float(dec(g("f" + c, 1), 6)) for c in "rgb")
    else:
        bgv = tuple("%s%%" % dec(g("p" + c, 100), 4) for c in "rgb")
    if kind == "rgba-str":
        text = "rgba(%d, %d, %d, %s)" % (rgb + (dec(g("ta")),))
        col = rgb
    elif kind == "rgba-tuple":
        text = rgb + (al,)
        col = rgb
    else:
        text = "hsla(%s, %s%%, %s%%, %s)" % (dec(g("th")), dec(g("ts")), dec(g("tl")), dec(g("ta")))
        col = tuple(255 * x for x in ref.css_hsl_exact(hsl[0], hsl[1] / 100, hsl[2] / 100))
    large = bool(g("large", False))
    pair = ColorPair(text, bgv, large)
    if not pair.is_valid:
        return True, "ColorPair(%r, %r) invalid: %r" % (text, bgv, pair.errors)
    T, B = pair.text.rgb, pair.bg.rgb
    if job["bg"] in ("float", "pct"):
        B0 = B                       # whatever the background was parsed to is the pair's own background
    blend = ref.source_over(col, al, B0)
    if B != B0:
        bad.append("background parsed as %r" % (B,))
    if any(abs(o - e) > 1.5 + 1e-9 for o, e in zip(T, blend)):
        bad.append("composite %r vs exact blend %r" % (T, tuple(round(x, 4) for x in blend)))
    if al == 1 and any(abs(o - e) > 0.5 + 1e-9 for o, e in zip(T, col)):
        bad.append("alpha 1 but %r" % (T,))
    if al == 0 and T != B0:
        bad.append("alpha 0 but %r" % (T,))
    r = ref.wcag_ratio(T, B)
    lab = {"AAA": "Very Readable", "AA": "Readable", "FAIL": "Not Readable"}[ref.wcag_label(r, large)]
    if pair.is_readable != lab and all(abs(r - th) > 1e-9 for th in (3.0, 4.5, 7.0)):
        bad.append("is_readable %r, label of the composite %r" % (pair.is_readable, lab))
    # make_readable must act on the composite: compare with the call on the explicit composite
    for mode in (0, 1):
        a = pair.make_readable(mode=mode)
        b = ColorPair(T, B, large).make_readable(mode=mode)
        ja, jb = apimod.css_readback(a[0]), apimod.css_readback(b[0])
        if a[1] != b[1] or ja != jb:
            bad.append("make_readable(mode=%d) on the translucent pair %r vs on its composite %r" % (mode, a, b))
    return bool(bad), "ColorPair(%r, %r, %r): text.rgb=%r bg.rgb=%r :: %s" % (text, bgv, large, T, B, "; ".join(bad))


def _ladder(job):
    from ..ladder import pairs
    import colorsys
    for al in (Fraction(1, 2), Fraction(1, 4), Fraction(9, 10), Fraction(0), Fraction(1)):
        for t, b in list(pairs())[::3]:
            h, l, s = colorsys.rgb_to_hls(t[0] / 255, t[1] / 255, t[2] / 255)
            yield dict(tr=t[0], tg=t[1], tb=t[2], br=b[0], bg=b[1], bb=b[2], ta=al, th=Fraction(round(h * 360)), ts=Fraction(round(s * 100)),
                       tl=Fraction(round(l * 100)), large=False,
                       fr=Fraction(b[0], 255), fg=Fraction(b[1], 255), fb=Fraction(b[2], 255),
                       pr=Fraction(b[0] * 100, 255), pg=Fraction(b[1] * 100, 255), pb=Fraction(b[2] * 100, 255))


REPLAYS = {"pair": replay_pair, "numre": c07.replay_numre}
LADDER = {"pair": _ladder}


def main(tier, seed):
    return runner.main(ID, __name__, jobs(tier), tier, seed, META)
