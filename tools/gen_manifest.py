#!/usr/bin/env python3
"""Generates /verif/MANIFEST.json from the table below (kept in one place so it stays consistent)."""
import json, os
HERE = os.path.dirname(os.path.dirname(os.path.abspath(__file__)))

TECH = "symbolic execution of the real functions (symx proxies) + SMT verdict per path (z3/cvc5), counterexamples replayed"

TECH_E2 = "CrossHair symbolic execution (z3) of contract functions over the real API, counterexamples replayed concretely"

CHECKS = {
 "C01": dict(
    text="The real make_readable -> check_and_fix_contrast -> strategy -> re-formatting code is executed symbolically for every spelling template x mode x large x "
         "very_readable with the background symbolic and the numeric search replaced by 'its input or ANY valid colour'; per path z3 proves success <=> "
         "reference WCAG ratio(colour read back, background) >= required minimum. The flag is thus right for whatever the search returns.",
    note="search stubbed (over-approximated); srgb_to_linear as UF (C05.1); hsl/hex read-back through the format->parse lemmas of C06; quick tier truncates mode 2's "
         "extended loop to 3 iterations and uses two spellings for mode 2; real model of doubles, guard 1e-9",
    design="3 C01", technique=TECH, thorough=True),
 "C02": dict(
    text="Clause A on the same harness as C01 (already passing => success and the identical colour, all templates x settings). Clause B with the contrast ratio as UF and "
         "the search stub under the contract 'contrast not lower', which is itself proved on the real generate_accessible_color (symbolic schedules, search routines as "
         "contract stubs): contrast(returned) >= contrast(original) on every path, including the relaxed fallback.",
    note="assume-guarantee chain: search routines (C04) -> generate_accessible_color (here) -> strategies (here); schedules of length <= 2 (quick) / 3 (thorough)",
    design="3 C02", technique=TECH, thorough=True),
 "C04": dict(
    text="The real binary_search_lightness, gradient_descent_oklch, generate_accessible_color and the three strategies run symbolically with dE / contrast as UFs and "
         "OKLCH conversions as fresh colours: each routine returns None/its input or a valid colour within the (largest) tolerance given; the library's schedules peak at "
         "5.0 / 3.0 / 15.0; recursive steps chain from the previous colour; the default schedule is still the default after a relaxed-mode run in the same process; "
         "hence mode 0 stays within dE 5.0.",
    note="bisection / descent loops truncated (3/3 quick, 4/6 thorough iterations; same loop body); numeric dE values abstracted (C11)",
    design="3 C04", technique=TECH, thorough=True),
 "C05": dict(
    text="Every feasible path of the real luminance / ratio / level / is_readable code over six symbolic 8-bit channels (and a free real ratio) "
         "is compared by the solver with an independent WCAG 2 reference; unsat on all paths = holds for all 2^24 colours / 2^48 pairs / all ratios, "
         "within a real-arithmetic model of doubles with a 1e-9 guard band.  The label jobs also ask the same pair at the other text size first, on the same path.",
    note="doubles modelled as reals (guard band 1e-9); pow(x,2.4) as UF with exact rational enclosure tables; trusted: z3/cvc5, vf/ref.py, CPython floats",
    design="3 C05", technique=TECH, thorough=True),
 "C06": dict(
    text="The real rgb_to_hsl -> hsl_to_rgb / parse_color_to_rgb string round trip, rgb() strings, tuples and the format dispatch are executed "
         "symbolically for all 2^24 colours (numerals carried as tokens through the real string code); z3 proves the pre-rounding value equals the "
         "channel and that the CSS Color 3 hsl algorithm reads the emitted value back as the colour; an IEEE-754 (Float64) twin proves the emitted "
         "percentages pass the library's own range validation bit-exactly (compositional proof, every step an SMT query); the make_readable format mapping "
         "(hex/rgb()/hsl()/tuple per input spelling x outcome) is decided on the API harness. Hex digits are outside the symbolic claim.",
    note="real model with 1e-9 guard for the value identity, exact binary64 for range acceptance (upper bounds, NaN, division safety); float(repr(x))==x assumed; "
         "hex output/input outside the symbolic claim",
    design="3 C06", technique=TECH + "; QF_BVFP twin for rounding-sensitive kernels", thorough=True),
 "C07": dict(
    text="parse_color_to_rgb and the hsl/hsla/rgba helpers behind it are executed on CSS strings with symbolic numerals inside concrete spelling templates; "
         "per path the solver compares with the CSS Color 3 algorithms (nearest 8-bit value for opaque forms, within 1.5 of the source-over blend for translucent "
         "forms over any background), equivalent spellings give identical terms, 3-tuples/lists parse to themselves, 148 keywords are ground obligations; a z3 regex lemma over all strings shows every CSS number is matched "
         "whole by the parser's numeral pattern (what the token abstraction assumes); hex parsing is a bounded CrossHair clause.",
    note="components range over their whole documented domain (8-bit ints, real percentages, hue in [-720,1080], alpha in [0,1]); spelling dimension is a finite "
         "template list; decimal literal -> double assumed exact; hex strings outside the symbolic claim",
    design="3 C07", technique=TECH, thorough=True),
 "C08": dict(
    text="Bounded partial claim. (1) z3's regex theory proves over ALL strings that every value on which the variable resolver's pattern finds a var(--N ..) reference is "
         "one the updater's pattern can rewrite (patterns read from the current source). (2) The real click callback `main` is executed symbolically, in-process, on "
         "19 stylesheet skeletons (at-rules nested up to three levels, unparseable colours) whose colours are symbolic rgb() tokens passing through tinycss2 for real, make_readable a recording stub: every rule counted exactly once, "
         "'already readable' only when the reference ratio meets 4.5/7.0, an adjusted rule's declaration or custom property in the written _cm.css IS the reported colour, "
         "make_readable called on the rule's own pair with (mode, premium), failures listed and unchanged.",
    note="claimed ONLY for instances of the listed skeletons (rgb() colours); arbitrary stylesheets are outside; one known finding (shared custom property "
         "rewritten per rule) is recorded in known_findings.txt; two genuine defects were repaired by fix: commits",
    design="3 C08", technique=TECH + "; z3 regular-expression theory for the var() pattern lemma", thorough=True),
 "C10": dict(
    text="The real rgb_to_oklch / oklch_to_rgb / safe wrappers run symbolically: forward over all 2^24 colours, L/C/H and the OKLab a,b equal the reference written from "
         "Ottosson's matrices (cube root, sqrt, atan2 as UFs: decided by congruence, any changed coefficient/sign/branch is a linear witness), ranges proved; inverse over "
         "all real (L,C,H) in the box: pre-rounding channel == 255*gamma(clip(reference inverse)), always a valid 8-bit colour, (0,0,.) black, (1,0,.) white; safe variants "
         "return the plain result on valid input and a valid colour on invalid triples; table step of the round-trip chain (all 256 channel values map back through "
         "the real transfer functions with a 1e-5 margin).",
    note="equivalence with the published formula, not numeric magnitudes: the exhaustive lossless round trip is NOT claimed (its box-bound step did not discharge reliably on any solver); grey-within-one-unit "
         "for C=0 not claimed; doubles as reals",
    design="3 C10", technique=TECH, thorough=True),
 "C11": dict(
    text="Lab: the real rgb_to_xyz/xyz_to_lab on all 2^24 colours equals the CIE reference on all 64 branch combinations. CIEDE2000: the real calculate_delta_e_2000, fed free "
         "real Lab triples through the harness-side replacement of the RGB->Lab lookup, is explored jointly with an independently transcribed Sharma-Wu-Dalal reference under "
         "shared UFs; on every feasible path of the hue-wrap / zero-chroma logic the results are equal, >= 0 and no exception can be raised (radicands, denominators). "
         "The reference is validated against the 34 published pairs on every run.",
    note="formula equivalence by congruence over uninterpreted sqrt/atan2/sin/cos/exp/x^7; numeric magnitudes (e.g. zero only for identical colours) and symmetry in the arguments not decided",
    design="3 C11", technique=TECH, thorough=True),
 "C12": dict(
    text="The real make_readable_bulk runs symbolically on lists of symbolic entries (tuple/list/string colours, invalid entries, symbolic large/mode/very_readable) with "
         "ColorPair.make_readable as a recording stub: one result per entry in order, each the stub's result for a pair built from that entry's own arguments, status = "
         "reference WCAG label of the returned colour, invalid entries unchanged and never 'readable', neighbours undisturbed.",
    note="list length <= 2 (quick) / 3 (thorough); what make_readable returns is C01's subject; save_report effects outside",
    design="3 C12", technique=TECH, thorough=True),
 "C13": dict(
    text="The real ColorPair constructor runs symbolically on rgba()/hsla()/RGBA-tuple text (and translucent backgrounds) with free alpha and symbolic background: the "
         "stored colour is within 1.5 of the exact source-over blend over that pair's own background, alpha 1/0 give colour/background, is_readable is the WCAG label of "
         "the composite and make_readable hands exactly the composite to the fixing routine.",
    note="three translucent spellings x background as tuple or string; hsla via stage lemma + abstraction; real model of doubles",
    design="3 C13", technique=TECH, thorough=True),
 "C14": dict(
    text="CrossHair explores Color / ColorPair / make_readable_bulk on free short strings, near-miss CSS templates with free fragments and tuples/lists of length 0-5 over "
         "int/float/str/None/bool looking for a raise or a mis-shaped valid/invalid object; 'Confirmed over all paths' for the short tuples, bounded bug-hunting for the rest.",
    note="bounded: strings <= 5 (fragments <= 3), containers <= 5; most conditions are 'Not confirmed' (no counterexample within the time budget), recorded per condition",
    design="3 C14", technique=TECH_E2, engine="crosshair", thorough=True),
 "C16": dict(
    text="Two runs of the real code are compared in one symbolic execution with the search as deterministic UFs: mode-1 success => mode 2 returns the identical colour "
         "with success (all 10 iterations); very_readable success => ordinary success with the real generate_accessible_color and the two search routines as UFs "
         "(schedules truncated, mode 0 fully and mode 1 for 2-3 recursive iterations).",
    note="assumes the search routines are functions of their arguments (C15, n/a); clause 2 is bounded (truncated schedules/iterations)",
    design="3 C16", technique=TECH, thorough=True),
 "C19": dict(
    text="CrossHair runs the three real report generators with one or two symbolic characters in one user-controlled slot at a time and searches for a text whose report "
         "differs from the marker report with the marker replaced by the per-character HTML escape (quotes included).",
    note="bounded bug-hunting: text of 1 and 2 symbolic characters per slot, one slot at a time with the others benign, plus 1 character with every other user slot empty; escaping is per character",
    design="3 C19", technique=TECH_E2, engine="crosshair", thorough=True),
}

NA = {
 "C03": "numerical search completeness (20-step bisection x 50-step descent through cos/sin/cube-root/CIEDE2000) has no solver-reachable encoding; UF abstraction forgets the magnitudes the premise quantifies over",
 "C09": "byte-level file effects and structural preservation through tinycss2's regex tokenizer over arbitrary stylesheets cannot be encoded within reach",
 "C15": "interpreter-level history/thread/process state is not expressible as a bounded SMT problem over this code",
 "C17": "stdout/stderr and filesystem effects of rich/print/open are not solver values",
 "C18": "directory traversal and filesystem fault sequences are outside any encoding available here",
}

def main():
    checks = []
    for cid in sorted(CHECKS):
        c = CHECKS[cid]
        e = dict(property_id=cid, quick_cmd="./check %s --tier quick" % cid, evidence_file="evidence/%s.json" % cid,
                 replay_cmd_template="./check %s --replay {path}" % cid, engine=c.get("engine", "symx"),
                 level_claimed=dict(category=c.get("category", "other"), text=c["text"], design_ref=c["design"]),
                 level_note=c["note"], technique=c["technique"])
        if c.get("thorough"):
            e["thorough_cmd"] = "./check %s --tier thorough" % cid
        checks.append(e)
    na = [dict(property_id=k, reason=v) for k, v in sorted(NA.items()) if k not in CHECKS]
    allp = [json.loads(l)["id"] for l in open(os.path.join(HERE, "properties.jsonl"))]
    for p in allp:
        if p not in CHECKS and p not in NA:
            na.append(dict(property_id=p, reason="check not built yet in this round (planned, see DESIGN.md section 3)"))
    na.sort(key=lambda d: d["property_id"])
    m = dict(version=1, setup_cmd="sh ./setup.sh",
             hooks=dict(guard="CM_COLORS_VERIF", enable="no source hooks: all interception is namespace injection inside the harness process",
                        baseline_off_cmd="cd /repo && /venv/bin/python -m pytest -ra -q -p no:cacheprovider --timeout=900 --continue-on-collection-errors",
                        source_commits=[], add_only=True),
             engines=[dict(name="symx", path="vf/symx.py", serves_properties=sorted(k for k in CHECKS if CHECKS[k].get("engine", "symx") == "symx"),
                           kind_free_text="proxy-object symbolic execution of the real Python functions, z3 per path, external portfolio (cvc5, z3 4.8.12)"),
                      dict(name="crosshair", path="vf/e2.py", serves_properties=sorted(k for k in CHECKS if CHECKS[k].get("engine") == "crosshair"),
                           kind_free_text="CrossHair 0.0.110 contract checking over the real API (E2)")],
             checks=checks, not_applicable=na,
             notes="exit 0 = all obligations unsat within stated bounds; exit 1 = reproduced violation; exit 2 = inconclusive (never a violation)")
    json.dump(m, open(os.path.join(HERE, "MANIFEST.json"), "w"), indent=1)
    print("wrote MANIFEST.json with", len(checks), "checks,", len(na), "n/a")

main()
