"""C08 -- CLI: what cm-colors reports is what it wrote, and every rule is accounted for (bounded partial claim).

(1) E3 lemma over ALL strings (z3 regex theory): every value on which the variable RESOLVER's pattern finds a var(--N ...)
    reference is one on which the UPDATER's pattern finds it too.
(2) symx on the real click callback `main`, in-process, for a finite list of stylesheet SKELETONS whose colours are
    rgb(§,§,§) tokens (symbolic 8-bit numerals travelling through tinycss2's tokenizer / serializer as identifiers).
"""
import contextlib
import io
import os
import re
import shutil
import tempfile
from fractions import Fraction

import z3

from .. import api as apimod
from .. import ref, repo, runner, rx, stubs, symx
from ..harness import EPS, conj, disj, eq_rgb, implies, is_valid8, load_core
from ..symx import SBool, SNum, SymRGB, lift, sbool

ID = "C08"

# name -> (css template, rules: list of dict(selector, text=placeholder name, bg=placeholder or None, via=None|'var name', where=...))
# placeholders {T0} {B0} ... are replaced by rgb(§,§,§) token strings
SKELETONS = {
    "plain": ("p {{ color: {T0}; }}\n", [dict(sel="p", text="T0", bg=None)]),
    "with-bg": (".a {{ color: {T0}; background-color: {B0}; }}\n", [dict(sel=".a", text="T0", bg="B0")]),
    "two-rules": ("h1 {{ color: {T0}; }}\n.b {{ background-color: {B1}; color: {T1}; }}\n",
                  [dict(sel="h1", text="T0", bg=None), dict(sel=".b", text="T1", bg="B1")]),
    "important": ("p {{ color: {T0} !important; margin: 0 }}\n", [dict(sel="p", text="T0", bg=None)]),
    "repeated": ("p {{ color: {T1}; color: {T0}; }}\n", [dict(sel="p", text="T0", bg=None)]),
    "comment-other-decls": ("/* c */\np {{ font: 12px x; color: {T0}; /* k */ border: 1px solid red }}\n", [dict(sel="p", text="T0", bg=None)]),
    "media": ("@media (min-width: 10px) {{ p {{ color: {T0}; background-color: {B0}; }} }}\n", [dict(sel="p", text="T0", bg="B0")]),
    "supports": ("@supports (display: grid) {{ .g {{ color: {T0}; }} }}\nq {{ color: {T1}; }}\n",
                 [dict(sel=".g", text="T0", bg=None), dict(sel="q", text="T1", bg=None)]),
    "nested2": ("@media (min-width: 600px) {{ @supports (display: grid) {{ .n {{ color: {T0}; background-color: {B0}; }} }} }}\n",
                [dict(sel=".n", text="T0", bg="B0")]),
    "nested3": ("@supports (display: flex) {{ @media print {{ @media (min-width: 1px) {{ .d {{ color: {T0}; }} }} u {{ color: {T1}; }} }} }}\n",
                [dict(sel=".d", text="T0", bg=None), dict(sel="u", text="T1", bg=None)]),
    "invalid-colour": ("p {{ color: inherit; }}\nq {{ color: {T0}; }}\nz {{ color: {T1}; background-color: notacolour; }}\n",
                       [dict(sel="p", invalid=True, text=None, bg=None), dict(sel="q", text="T0", bg=None), dict(sel="z", invalid=True, text="T1", bg=None)]),
    "root-var": (":root {{ --c: {T0}; }}\np {{ color: var(--c); }}\n", [dict(sel="p", text="T0", bg=None, var="--c")]),
    "html-var-bg": ("html {{ --c: {T0}; --b: {B0}; }}\np {{ color: var(--c); background-color: var(--b); }}\n",
                    [dict(sel="p", text="T0", bg="B0", var="--c")]),
    "chained-var": (":root {{ --base: {T0}; --c: var(--base); }}\np {{ color: var(--c); }}\n", [dict(sel="p", text="T0", bg=None, var="--c")]),
    "var-fallback": (":root {{ --c: {T0}; }}\np {{ color: var(--c, {T1}); }}\n", [dict(sel="p", text="T0", bg=None, var="--c")]),
    "var-undefined-fallback": ("p {{ color: var(--nope, {T0}); }}\n", [dict(sel="p", text="T0", bg=None, fallback_only=True)]),
    "shared-var": (":root {{ --c: {T0}; }}\na {{ color: var(--c); }}\nb {{ color: var(--c); background-color: {B1}; }}\n",
                   [dict(sel="a", text="T0", bg=None, var="--c"), dict(sel="b", text="T0", bg="B1", var="--c")]),
    "root-color": (":root {{ color: {T0}; --x: 1px; }}\n", [dict(sel=":root", text="T0", bg=None)]),
    "selector-list": ("a, b > c {{ color: {T0}; }}\nd {{ color: {T1}; background-color: {B1}; }}\n",
                      [dict(sel="a, b > c", text="T0", bg=None), dict(sel="d", text="T1", bg="B1")]),
    "var-in-media": (":root {{ --c: {T0}; }}\n@media print {{ p {{ color: var(--c); background-color: {B0}; }} }}\n",
                     [dict(sel="p", text="T0", bg="B0", var="--c")]),
    "var-bg-only": (":root {{ --b: {B0}; }}\np {{ color: {T0}; background-color: var(--b); }}\n", [dict(sel="p", text="T0", bg="B0")]),
    "uppercase-prop": ("p {{ COLOR: {T0}; }}\nq {{ Color: {T1}; BACKGROUND-COLOR: {B1}; }}\n",
                       [dict(sel="p", text="T0", bg=None), dict(sel="q", text="T1", bg="B1")]),
    "html-color": ("html {{ color: {T0}; background-color: {B0}; }}\n", [dict(sel="html", text="T0", bg="B0")]),
}

QUICK = ["plain", "with-bg", "two-rules", "important", "repeated", "comment-other-decls", "media", "supports", "nested2", "nested3", "invalid-colour", "root-var", "html-var-bg",
         "chained-var", "var-fallback", "var-undefined-fallback", "shared-var", "root-color", "html-color", "selector-list", "var-in-media", "var-bg-only", "uppercase-prop"]

META = dict(
    explanation=(
        "(1) z3's regular-expression theory decides, over all strings, that every value on which the variable resolver's pattern "
        "(read from the current source with ast) finds a var(--N ...) reference is one on which the updater's pattern finds it.  "
        "(2) symx executes the real click callback cm_colors.cli.main.main in-process on stylesheet skeletons written to a scratch "
        "directory, the colours being rgb(§,§,§) tokens that pass through tinycss2's tokenizer, declaration parser and serializer "
        "unchanged; --mode / --premium / --default-bg enumerated per job; ColorPair.make_readable is a recording stub returning a fresh "
        "symbolic colour and flag, the contrast ratio an uninterpreted function.  Per path z3 proves: every rule with a text colour is "
        "counted in exactly one category; 'already readable' only when the reference ratio of the resolved pair meets 4.5 / 7.0; an "
        "adjusted rule's declaration (or the custom property it references) in the written _cm.css IS the reported colour and "
        "make_readable was called on that rule's own pair with (mode, premium); rules needing attention are listed by selector and left "
        "unchanged."),
    functions=["cli.main.main", "cli.main.process_nodes_recursive", "cli.main.resolve_variable", "cli.main.update_decl_value",
               "cli.main.extract_color_from_decl", "cli.main.get_css_files", "colors.ColorPair.__init__", "color_parser.parse_color_to_rgb"],
    stubs=["ColorPair.make_readable -> recording stub (fresh valid colour as an rgb() string, fresh flag); what it returns is C01's subject",
           "calculate_contrast_ratio -> UF CR (C05.2)", "cli.main.generate_report -> no-op (HTML report is C19's subject)",
           "get_wcag_level -> evaluated lazily (only used for the report)"],
    bounds=["stylesheets: the %d skeletons of vf/checks/c08.py (plain, background-color, two rules, !important, repeated declarations, comments, one level "
            "of @media / @supports, custom properties in :root / html: direct, chained, with fallback, undefined with fallback, shared by two rules; "
            "colour declared directly in :root / html)" % len(SKELETONS),
            "colours: rgb() with all 8-bit values; --mode in {0,1,2}, --premium, --default-bg white / a symbolic rgb()"],
    outside=["every stylesheet that is not an instance of a listed skeleton; nesting deeper than three at-rules; strings, url(), escapes; other colour spellings "
             "inside stylesheets; the HTML report cards; byte-level preservation (C09, n/a)"],
    trusted=["z3 (sequence/regex theory, arithmetic)", "tinycss2 (runs for real)", "click (callback invoked directly)"],
    assumptions=["tokens are treated by tinycss2 as identifiers inside a function block (checked on every run: serialize(parse(css)) == css)"],
)


def jobs(tier):
    js = [dict(kind="regex")]
    settings = [(1, False, "white"), (0, True, "sym")] if tier == "quick" else [(m, p, d) for m in (0, 1, 2) for p in (False, True) for d in ("white", "sym")]
    for sk in QUICK:
        for mode, prem, dbg in settings:
            js.append(dict(kind="skeleton", sk=sk, mode=mode, premium=prem, default_bg=dbg))
    return js


# ---------------------------------------------------------------------------------------------------------

def _regex_job(job, out):
    path = os.path.join(repo.SRC, "cm_colors", "cli", "main.py")
    lits = rx.regex_literals(path, "var")
    resolver = [l for l in lits if "(?:" in l[2] or ",\\s*" in l[2] or "," in l[2]]
    updater = [l for l in lits if l not in resolver]
    out.d["paths"] = 1
    s = z3.String("value")
    inputs = {"value": s}
    if not resolver or not updater:
        # the two-pattern mechanism is gone (e.g. one shared pattern): nothing to compare
        out.d["obligations"] += 1
        out.d["discharged"] += 1
        out.sample({"obligation": "resolver and updater share one var() pattern", "verdict": "trivial"})
        return
    for (l1, _, rp) in resolver:
        for (l2, _, up) in updater:
            name = "every value the resolver (line %d) resolves through var(--N ..) is one the updater (line %d) can rewrite" % (l1, l2)
            out.d["obligations"] += 1
            out.d["names"][name] = 1
            sol = z3.Solver()
            sol.set("timeout", 60000)
            sol.add(z3.InRe(s, rx.searches(rp)), z3.Not(z3.InRe(s, rx.searches(up))))
            # a readable witness: a plain custom-property reference with optional fallback
            nice = z3.Solver()
            nice.set("timeout", 60000)
            nice.add(z3.InRe(s, rx.to_z3(r"var\(--[a-z]{1,3}( *, *#[0-9a-f]{3})?\)")))
            nice.add(z3.InRe(s, rx.searches(rp)), z3.Not(z3.InRe(s, rx.searches(up))))
            r = sol.check()
            out.d["queries"] += 1
            if r == z3.unsat:
                out.d["discharged"] += 1
                out.sample({"obligation": name, "verdict": "unsat", "resolver": rp, "updater": up})
                continue
            if r == z3.unknown:
                out.d["unknown"] += 1
                out.d["inconclusive"].append({"obligation": name, "why": "unknown", "job": job})
                continue
            wit = sol.model()[s].as_string()
            if nice.check() == z3.sat:
                wit = nice.model()[s].as_string()
            inp = {"value": wit, "_job": job, "_obligation": name}
            rp_path = runner.write_replay(ID, "regex", inp, note=name)
            ok, detail = runner.run_replay(rp_path)
            if ok:
                out.d["violations"].append({"obligation": name, "replay": rp_path, "inputs": {"value": wit}, "detail": detail[-1500:], "kind": "regex",
                                            "job": job})
                out.d["sat"] += 1
            else:
                out.d["unknown"] += 1
                out.d["inconclusive"].append({"obligation": name, "why": "unreproduced", "witness": wit, "job": job})


class _Rec:
    pass


def run_job(job):
    out = runner.JobOut(job)
    if job["kind"] == "regex":
        repo.load("cm_colors")
        _regex_job(job, out)
        return out.d
    api = apimod.Api(config="uf")
    eng, m = api.eng, api.m
    main_mod = repo_main()
    symx.inject(main_mod)
    main_mod.calculate_contrast_ratio = api.st.contrast
    real_level = main_mod.get_wcag_level
    main_mod.get_wcag_level = lambda *a, **k: apimod.LazyValue(real_level, a, k)
    main_mod.generate_report = lambda details: "cm_colors_report.html"
    import tinycss2
    tpl, rules = SKELETONS[job["sk"]]
    mode, premium = job["mode"], job["premium"]
    calls = []
    CP = m.colors.ColorPair

    def mr_stub(self, mode=1, very_readable=False, show=False, save_report=False):
        col = eng.fresh_rgb("tuned")
        val = "rgb(%s, %s, %s)" % (eng.numeral(col[0]), eng.numeral(col[1]), eng.numeral(col[2]))
        flag = eng.fresh_bool("ok")
        calls.append(dict(pair=self, mode=mode, very=very_readable, show=show, save=save_report, value=val, colour=col, flag=flag))
        return val, flag

    CP.make_readable = mr_stub
    scratch = tempfile.mkdtemp(prefix="vf_c08_")

    def fn():
        calls.clear()
        cols = {}
        names = sorted(set(re.findall(r"\{([TB]\d)\}", tpl)))
        for n in names:
            c = eng.rgb_var(n.lower())
            cols[n] = (c, "rgb(%s, %s, %s)" % (eng.numeral(c[0]), eng.numeral(c[1]), eng.numeral(c[2])))
        css = tpl.format(**{n: cols[n][1] for n in names})
        if job["default_bg"] == "sym":
            dbc = eng.rgb_var("d")
            dbg = "rgb(%s, %s, %s)" % (eng.numeral(dbc[0]), eng.numeral(dbc[1]), eng.numeral(dbc[2]))
        else:
            dbc = SymRGB([SNum(z3.IntVal(255))] * 3)
            dbg = "white"
        # the token assumption, checked on every run
        rt = tinycss2.serialize(tinycss2.parse_stylesheet(css, skip_whitespace=False, skip_comments=False))
        eng.oblige("tokens survive tinycss2 parse/serialize", sbool(rt == css))
        d = os.path.join(scratch, "w")
        shutil.rmtree(d, ignore_errors=True)
        os.makedirs(d)
        fpath = os.path.join(d, "s.css")
        with open(fpath, "w", encoding="utf-8") as f:
            f.write(css)
        buf = io.StringIO()
        cwd = os.getcwd()
        os.chdir(d)
        try:
            with contextlib.redirect_stdout(buf), contextlib.redirect_stderr(buf):
                main_mod.main.callback(fpath, dbg, mode, premium)
        finally:
            os.chdir(cwd)
        text = buf.getvalue()
        eng.oblige("no per-file error reported", sbool("Error processing" not in text))
        outp = os.path.join(d, "s_cm.css")
        eng.oblige("output file written", sbool(os.path.exists(outp)))
        if not os.path.exists(outp):
            return text
        written = open(outp, encoding="utf-8").read()
        decls = _collect(tinycss2, written)
        orig = _collect(tinycss2, css)

        def count(pat):
            mm = re.search(pat, text)
            return int(mm.group(1)) if mm else 0
        n_acc = count(r"(\d+) color pairs already readable")
        n_tun = count(r"(\d+) color pairs adjusted")
        n_fail = count(r"(\d+) color pairs need your attention")
        eng.oblige("every rule with a text colour is counted exactly once", sbool(n_acc + n_tun + n_fail == len(rules)))
        failed_sels = re.findall(r"^  s\.css -> (.*)$", text, flags=re.M)
        target = 7.0 if premium else 4.5
        # classification per rule, reconstructed from the call log (make_readable is called exactly for the rules that are not already readable)
        ci = 0
        acc = tun = fail = 0
        varval = {}      # custom property -> (colour, spelled value) as the tool sees it after earlier rules rewrote it
        reported = {}    # custom property -> list of (rule, reported value)
        for r in rules:
            if r.get("invalid"):
                fail += 1
                eng.oblige("rule %s: unparseable colour => needs attention, listed by selector" % r["sel"], sbool(r["sel"] in failed_sels))
                eng.oblige("rule %s: unparseable colour => left unchanged" % r["sel"],
                           sbool(decls.get((r["sel"], "color")) == orig.get((r["sel"], "color"))))
                continue
            tcol = cols[r["text"]][0]
            if r.get("var") and r["var"] in varval:
                tcol = varval[r["var"]][0]
            bcol = cols[r["bg"]][0] if r["bg"] else dbc
            ratio = api.st.contrast(tcol, bcol)
            c = calls[ci] if ci < len(calls) else None
            mine = c is not None and bool(conj(eq_rgb(c["pair"].text.rgb, tcol), eq_rgb(c["pair"].bg.rgb, bcol))) if c is not None else False
            if c is None or not mine:
                # not tuned: must be 'already readable' (valid colours are never 'invalid' here)
                acc += 1
                eng.oblige("rule %s: counted as already readable only if it meets %s" % (r["sel"], target), ratio >= target)
                eng.oblige("rule %s: an already readable rule is left unchanged" % r["sel"],
                           sbool(decls.get((r["sel"], "color")) == orig.get((r["sel"], "color"))))
                continue
            ci += 1
            eng.oblige("rule %s: tuned only if it misses %s" % (r["sel"], target), ratio < target)
            eng.oblige("rule %s: make_readable called with this run's mode / premium" % r["sel"],
                       sbool(c["mode"] == mode and c["very"] == premium and not c["show"] and not c["save"]))
            if bool(c["flag"]):
                tun += 1
                if r.get("var") and not r.get("fallback_only"):
                    varval[r["var"]] = (c["colour"], c["value"])
                    reported.setdefault(r["var"], []).append((r["sel"], c["value"]))
                else:
                    got = decls.get((r["sel"], "color"))
                    eng.oblige("rule %s: reported as adjusted => its color declaration in _cm.css is the reported colour" % r["sel"],
                               sbool(got is not None and got.replace(" !important", "").strip() == c["value"]),
                               )
                if "!important" in (orig.get((r["sel"], "color")) or ""):
                    eng.oblige("rule %s: !important kept" % r["sel"], sbool("!important" in (decls.get((r["sel"], "color")) or "")))
            else:
                fail += 1
                eng.oblige("rule %s: needs attention => listed by selector" % r["sel"], sbool(r["sel"] in failed_sels))
                if not r.get("var"):
                    eng.oblige("rule %s: needs attention => left unchanged" % r["sel"],
                               sbool(decls.get((r["sel"], "color")) == orig.get((r["sel"], "color"))))
        for var, reps in reported.items():
            got = decls.get((":root", var)) or decls.get(("html", var))
            for i, (sel, val) in enumerate(reps):
                last = i == len(reps) - 1
                eng.oblige("rule %s: reported as adjusted => its custom property %s holds the reported colour in _cm.css" % (sel, var),
                           sbool(got == val), key=("shared-var-rewritten" if (len(reps) > 1 and not last) else None))
        eng.oblige("summary counts match the per-rule outcomes", sbool((n_acc, n_tun, n_fail) == (acc, tun, fail)))
        eng.oblige("no make_readable call beyond the rules that need tuning", sbool(ci == len(calls)))
        # everything that is not a text colour (or a referenced custom property) is carried over
        for k, v in orig.items():
            if k[1] != "color" and not k[1].startswith("--"):
                eng.oblige("declaration %s / %s carried over" % k, sbool(decls.get(k) == v))
        return text

    def on_path(pr):
        if pr.outcome == "exc":
            pr.obligations = [("no exception (%s: %s)" % (type(pr.exc).__name__, str(pr.exc)[:100]), z3.BoolVal(False), {})]
        runner.discharge(ID, job, pr, out, "skeleton", max_models=3)

    try:
        eng.explore(fn, on_path)
    finally:
        shutil.rmtree(scratch, ignore_errors=True)
    out.d["stats"] = dict(eng.stats)
    return out.d


def repo_main():
    import importlib
    return importlib.import_module("cm_colors.cli.main")


def _collect(tinycss2, css):
    """{(selector, property): value string} over top-level rules and one level of @media/@supports (last declaration wins)"""
    outd = {}

    def rules(nodes):
        for n in nodes:
            if n.type == "qualified-rule":
                sel = tinycss2.serialize(n.prelude).strip()
                for d in tinycss2.parse_declaration_list(n.content, skip_whitespace=True, skip_comments=True):
                    if d.type == "declaration":
                        v = tinycss2.serialize(d.value).strip()
                        if d.important:
                            v += " !important"
                        outd[(sel, d.name if d.name.startswith("--") else d.lower_name)] = v   # property names are ASCII case-insensitive
            elif n.type == "at-rule" and n.content:
                rules(tinycss2.parse_rule_list(n.content, skip_whitespace=True, skip_comments=True))   # any depth

    rules(tinycss2.parse_stylesheet(css, skip_whitespace=True, skip_comments=True))
    return outd


# ----------------------------------------------------------------- replays: the real CLI on a concrete stylesheet

def _run_cli(css, default_bg, mode, premium):
    import subprocess
    import sys
    d = tempfile.mkdtemp(prefix="vf_c08r_")
    try:
        p = os.path.join(d, "s.css")
        open(p, "w", encoding="utf-8").write(css)
        cmd = [sys.executable, "-c", "import sys; sys.path.insert(0, %r); from cm_colors.cli.main import main; main()" % repo.SRC,
               p, "--default-bg", default_bg, "--mode", str(mode)] + (["--premium"] if premium else [])
        r = subprocess.run(cmd, capture_output=True, text=True, cwd=d, timeout=900)
        outp = os.path.join(d, "s_cm.css")
        written = open(outp, encoding="utf-8").read() if os.path.exists(outp) else None
        return r.stdout + r.stderr, written
    finally:
        shutil.rmtree(d, ignore_errors=True)


def _judge(css, rules, cols, default_bg_rgb, default_bg, mode, premium):
    """independent oracle for one concrete stylesheet: returns list of problems"""
    import tinycss2
    from cm_colors.core.colors import ColorPair
    text, written = _run_cli(css, default_bg, mode, premium)
    bad = []
    if written is None:
        return ["no output file; stdout: %s" % text[-300:]], text
    decls, orig = _collect(tinycss2, written), _collect(tinycss2, css)

    def count(pat):
        mm = re.search(pat, text)
        return int(mm.group(1)) if mm else 0
    n_acc, n_tun, n_fail = count(r"(\d+) color pairs already readable"), count(r"(\d+) color pairs adjusted"), count(r"(\d+) color pairs need your attention")
    if n_acc + n_tun + n_fail != len(rules):
        bad.append("counts %d+%d+%d != %d rules" % (n_acc, n_tun, n_fail, len(rules)))
    failed_sels = re.findall(r"^  s\.css -> (.*)$", text, flags=re.M)
    target = 7.0 if premium else 4.5
    exp = [0, 0, 0]
    varval = {}
    final_expect = {}
    for r in rules:
        if r.get("invalid"):
            exp[2] += 1
            if r["sel"] not in failed_sels or decls.get((r["sel"], "color")) != orig.get((r["sel"], "color")):
                bad.append("rule %s (unparseable colour) not listed or changed" % r["sel"])
            continue
        t = cols[r["text"]]
        if r.get("var") and r["var"] in varval:
            t = varval[r["var"]]
        b = cols[r["bg"]] if r["bg"] else default_bg_rgb
        ratio = ref.wcag_ratio(t, b)
        if abs(ratio - target) < 1e-9:
            continue
        if ratio >= target:
            exp[0] += 1
            continue
        want, ok = ColorPair(t, b).make_readable(mode=mode, very_readable=premium)
        if ok:
            exp[1] += 1
            if r.get("var") and not r.get("fallback_only"):
                varval[r["var"]] = tuple(want)
            key = (":root", r["var"]) if r.get("var") and not r.get("fallback_only") else (r["sel"], "color")
            got = decls.get(key) or (decls.get(("html", r["var"])) if r.get("var") else None)
            J = apimod.css_readback((got or "").replace(" !important", "").strip())
            if J is None or ref.wcag_ratio(J, b) < target - 1e-9 or J != tuple(want):
                bad.append("rule %s reported adjusted (API gives %r) but _cm.css has %s = %r" % (r["sel"], want, key, got))
        else:
            exp[2] += 1
            if r["sel"] not in failed_sels:
                bad.append("rule %s needs attention but is not listed" % r["sel"])
    if (n_acc, n_tun, n_fail) != tuple(exp):
        bad.append("reported counts (%d,%d,%d) but the API classifies the rules as %r" % (n_acc, n_tun, n_fail, tuple(exp)))
    return bad, text


def replay_skeleton(inp):
    job = inp["_job"]
    tpl, rules = SKELETONS[job["sk"]]
    names = sorted(set(re.findall(r"\{([TB]\d)\}", tpl)))
    cols = {n: tuple(int(inp.get(n.lower() + c, 0)) for c in "rgb") for n in names}
    css = tpl.format(**{n: "rgb(%d, %d, %d)" % cols[n] for n in names})
    if job["default_bg"] == "sym":
        dbc = tuple(int(inp.get("d" + c, 255)) for c in "rgb")
        dbg = "rgb(%d, %d, %d)" % dbc
    else:
        dbc, dbg = (255, 255, 255), "white"
    bad, text = _judge(css, rules, cols, dbc, dbg, job["mode"], job["premium"])
    return bool(bad), "stylesheet:\n%s\n--default-bg %s --mode %d%s\n%s\n:: %s" % (css, dbg, job["mode"], " --premium" if job["premium"] else "",
                                                                                 text[-400:], "; ".join(bad))


def replay_regex(inp):
    """the regex witness class on the real CLI: a failing colour referenced through var(--N, fallback)"""
    css = ":root { --c: #777777; }\np { color: var(--c, #888888); }\n"
    rules = [dict(sel="p", text="T0", bg=None, var="--c")]
    bad, text = _judge(css, rules, {"T0": (0x77, 0x77, 0x77)}, (255, 255, 255), "white", 1, False)
    return bool(bad), "witness value %r; concrete instance:\n%s\n%s\n:: %s" % (inp.get("value"), css, text[-300:], "; ".join(bad))


def _ladder(job):
    from ..ladder import pairs
    tpl, rules = SKELETONS[job["sk"]]
    names = sorted(set(re.findall(r"\{([TB]\d)\}", tpl)))
    ps = list(pairs())
    greys = [(119, 119, 119), (150, 150, 150), (200, 200, 200), (90, 90, 90)]
    for k in range(len(greys)):
        d = {}
        for i, n in enumerate(names):
            c = greys[(k + i) % len(greys)] if n.startswith("T") else (255, 255, 255)
            d.update({n.lower() + "r": c[0], n.lower() + "g": c[1], n.lower() + "b": c[2]})
        d.update(dr=255, dg=255, db=255)
        yield d
    for k in range(0, len(ps), 9):
        d = {}
        for i, n in enumerate(names):
            t, b = ps[(k + 5 * i) % len(ps)]
            c = t if n.startswith("T") else b
            d.update({n.lower() + "r": c[0], n.lower() + "g": c[1], n.lower() + "b": c[2]})
        d.update(dr=255, dg=255, db=255)
        yield d


REPLAYS = {"skeleton": replay_skeleton, "regex": replay_regex}
LADDER = {"skeleton": _ladder}


def main(tier, seed):
    return runner.main(ID, __name__, jobs(tier), tier, seed, META)
