"""C04 -- change is bounded: strict mode within dE 5.0, each search step within its tolerance."""
from fractions import Fraction

import z3

from .. import ref, repo, runner, stubs, symx
from ..harness import EPS, close, conj, disj, eq_rgb, implies, is_valid8, load_core
from ..symx import SBool, SNum, SymRGB, sbool

ID = "C04"

META = dict(
    explanation=(
        "The real binary_search_lightness, gradient_descent_oklch, generate_accessible_color and the three _strategy_* functions "
        "are executed by symx with text/background as six symbolic 8-bit channels, the tolerance / target / schedule entries as free "
        "reals, CIEDE2000 and the contrast ratio as uninterpreted functions (dE >= 0; ratio in [1,21]) and the OKLCH conversions as "
        "fresh valid colours.  Per path z3 proves: each routine returns None / its input or a valid 8-bit colour whose dE to the input "
        "is <= the (largest) tolerance it was given; the schedules the library hands to the routines peak at 5.0 (strict), 3.0 "
        "(recursive steps), 15.0 (relaxed fallback); each recursive step starts from the previous step's colour and the first from the "
        "original; hence mode 0 stays within dE 5.0."),
    functions=["optimisation.binary_search_lightness", "optimisation.gradient_descent_oklch", "optimisation.generate_accessible_color",
               "optimisation._strategy_strict", "optimisation._strategy_recursive", "optimisation._strategy_relaxed",
               "conversions.is_valid_rgb"],
    stubs=["calculate_delta_e_2000 -> UF DE (>=0, symmetric, 0 on identical colours; discharged by C11)",
           "calculate_contrast_ratio -> UF CR (in [1,21], symmetric; discharged by C05)",
           "rgb_to_oklch_safe -> fresh (L in [0,1], C >= 0, H in [0,360]); oklch_to_rgb_safe -> fresh valid 8-bit colour (C10)",
           "in the generate_accessible_color job: bisection/descent -> 'None or any valid colour within the tolerance' (their own obligations here)",
           "in the strategy jobs: generate_accessible_color -> 'its input or any valid colour within max(schedule)' (its own obligation here)",
           "in the mode-2 strategy job: _strategy_recursive -> '(input or any valid colour, flag == contrast >= min)' (proved by the mode-1 jobs of C04/C01)"],
    trusted=["z3", "the stub contracts listed (each discharged by the named check)"],
    assumptions=["the numeric values of dE / contrast are abstracted: only the control logic that keeps, discards and returns candidates is decided"],
)


def bounds(tier):
    if tier == "thorough":
        return dict(kb=4, kd=6, ks=[1, 2], it1=10, it2=15)
    return dict(kb=3, kd=3, ks=[1, 2], it1=10, it2=15)


def jobs(tier):
    b = bounds(tier)
    js = [dict(kind="bisect", k=b["kb"])]
    js.append(dict(kind="descent", k=b["kd"]))
    for ks in b["ks"]:
        if ks >= 3:
            for i in range(16):
                js.append(dict(kind="G", ks=ks, shard=[i, 16, 14]))
        else:
            js.append(dict(kind="G", ks=ks))
    js.append(dict(kind="G-default"))
    js.append(dict(kind="G-default", after="relaxed"))   # the default schedule is still the default after a relaxed-mode run
    for mode in (0, 1):
        js.append(dict(kind="strategy", mode=mode))
    for i in range(8):
        js.append(dict(kind="strategy", mode=2, shard=[i, 8, 30]))
    return js


def meta_for(tier):
    b = bounds(tier)
    m = dict(META)
    m["bounds"] = [
        "channels: all 8-bit values; tolerance in [0,50], target in [1,21], schedule entries in [0,50]: all reals",
        "bisection loop range(20) truncated to %d iterations (same loop body every iteration; candidates are fresh symbolic colours)" % b["kb"],
        "descent loop range(50) truncated to %d iterations" % b["kd"],
        "generate_accessible_color: explicit symbolic schedules of length %s; the default schedule is observed concretely" % b["ks"],
        "strategies: all 10 / 15 recursive iterations (one continuing path per iteration)"]
    m["outside"] = ["bisection iterations beyond the truncation (same body)", "numeric dE values (C11)", "mode 1/2 API-level distance (not bounded by the property)"]
    return m


def run_job(job, check_id=None, only=None):
    kind = job["kind"]
    caps = {}
    if kind == "bisect":
        caps = {20: job["k"]}
    elif kind == "descent":
        caps = {50: job["k"]}
    m = load_core(caps=caps)
    opt = m.optimisation
    eng = symx.Engine()
    st = stubs.Stubs(eng)
    out = runner.JobOut(job)
    opt.calculate_delta_e_2000 = st.delta_e
    opt.calculate_contrast_ratio = st.contrast
    opt.rgb_to_oklch_safe = st.rgb_to_oklch_safe
    opt.oklch_to_rgb_safe = st.oklch_to_rgb_safe
    real_G = opt.generate_accessible_color

    def within(text, res, tol):
        return conj(is_valid8(tuple(res)), st.delta_e(text, res) <= tol)

    if kind in ("bisect", "descent"):
        fnreal = opt.binary_search_lightness if kind == "bisect" else opt.gradient_descent_oklch

        def fn():
            st.calls.clear()
            text, bg = eng.rgb_var("t"), eng.rgb_var("b")
            tol = eng.real_var("tol", 0, 50)
            target = eng.real_var("target", 1, 21)
            res = fnreal(text, bg, tol, target)
            if res is None:
                eng.oblige("returns None or a colour", sbool(True))
            else:
                eng.oblige("result is a valid 8-bit colour within the tolerance", within(text, res, tol))
            return res
    elif kind == "G":
        opt.binary_search_lightness = st.search_stub("bis")
        opt.gradient_descent_oklch = st.search_stub("gd")

        def fn():
            st.calls.clear()
            text, bg = eng.rgb_var("t"), eng.rgb_var("b")
            seq = [eng.real_var("tol%d" % i, 0, 50) for i in range(job["ks"])]
            target = eng.real_var("target", 1, 21)
            minc = eng.real_var("minc", 1, 21)
            res = real_G(text, bg, False, target, minc, seq)
            if res is text:
                eng.oblige("returns its input or a bounded colour", sbool(True))
            else:
                mx = seq[0]
                for s_ in seq[1:]:
                    mx = symx.smax(mx, s_)
                eng.oblige("result within the largest tolerance of the schedule", within(text, res, mx))
            # every tolerance handed to a search routine is an entry of the schedule, and the search starts from the input colour
            for c in st.calls:
                eng.oblige("search routine called on the input colour with a schedule entry",
                           conj(sbool(c[1] is text), sbool(c[2] is bg), disj(*[c[3] == s_ for s_ in seq])))
            # C02.B1: contrast never drops
            eng.oblige("C02.B1 contrast(result) >= contrast(input)", st.contrast(res, bg) >= st.contrast(text, bg))
            return res
    elif kind == "G-default":
        none_stub = lambda *a, **k: (st.calls.append(("s", a[0], a[1], a[2], a[3])), None)[1]
        opt.binary_search_lightness = none_stub
        opt.gradient_descent_oklch = none_stub

        def fn():
            st.calls.clear()
            text, bg = eng.rgb_var("t"), eng.rgb_var("b")
            large = eng.bool_var("large")
            if job.get("after") == "relaxed":
                # one relaxed-mode run first (same process, searches finding nothing): schedules must be rebuilt per call
                t2, b2 = eng.rgb_var("u"), eng.rgb_var("v")
                opt._strategy_relaxed(t2, b2, False, 7.0, 4.5)
                st.calls.clear()
            res = real_G(text, bg, large)
            eng.oblige("nothing found -> input returned", sbool(res is text))
            tols = [c[3] for c in st.calls]
            if tols:
                eng.oblige("default schedule peaks at 5.0", sbool(all(isinstance(t, float) for t in tols) and max(tols) <= 5.0))
                eng.oblige("default schedule is ascending", sbool(all(a <= b for a, b in zip(tols, tols[1:]))))
            return res
    elif kind == "strategy":
        mode = job["mode"]
        opt.generate_accessible_color = st.g_stub(bounded=True)
        if mode == 2:
            # the recursive phase is the mode-1 job's subject; here it is a stub with the contract that job proves
            opt._strategy_recursive = st.rec_stub()
        strat = {0: opt._strategy_strict, 1: opt._strategy_recursive, 2: opt._strategy_relaxed}[mode]

        def fn():
            st.calls.clear()
            text, bg = eng.rgb_var("t"), eng.rgb_var("b")
            large = eng.bool_var("large")
            target = eng.real_var("target", 1, 21)
            minc = eng.real_var("minc", 1, 21)
            res, ok = strat(text, bg, large, target, minc)
            gcalls = [c for c in st.calls if isinstance(c, dict) and c["kind"] == "G"]
            if mode == 2:
                rcalls = [c for c in st.calls if isinstance(c, dict) and c["kind"] == "REC"]
                eng.oblige("relaxed mode runs the recursive strategy first, on the original pair",
                           sbool(len(rcalls) == 1 and rcalls[0]["text"] is text and rcalls[0]["bg"] is bg and st.calls[0] is rcalls[0]))
            if mode == 0:
                eng.oblige("mode 0 uses the default schedule once, from the original colour",
                           sbool(len(gcalls) == 1 and gcalls[0]["text"] is text and gcalls[0]["seq"] is None))
                eng.oblige("mode 0 result within dE 5.0 of the original", disj(sbool(res is text), within(text, res, 5.0)))
            else:
                rec = [c for c in gcalls if c["seq"] is not None and max(c["seq"]) <= 3.0]
                recids = {id(c) for c in rec}
                other = [c for c in gcalls if id(c) not in recids]
                eng.oblige("recursive steps use a schedule ending at <= 3.0; only the relaxed fallback goes to <= 15.0, from the original",
                           sbool(all(mode == 2 and c["seq"] is not None and max(c["seq"]) <= 15.0 and c["text"] is text for c in other)))
                chain = bool(not rec or rec[0]["text"] is text)
                for prev, c in zip(rec, rec[1:]):
                    if not (c["text"] is prev["out"] or c["text"] is text):
                        chain = False
                eng.oblige("each recursive step starts from the previous step's colour (the first from the original)", sbool(chain))
            eng.oblige("every step gets the pair's background", sbool(all(c["bg"] is bg for c in gcalls)))
            return res
    else:
        raise ValueError(kind)

    def on_path(pr):
        if pr.outcome == "exc":
            pr.obligations = [("no exception (%s: %s)" % (type(pr.exc).__name__, str(pr.exc)[:100]), z3.BoolVal(False), {})]
        if only is not None:
            pr.obligations = [o for o in pr.obligations if only(o[0])]
        runner.discharge(check_id or ID, job, pr, out, kind)

    eng.explore(fn, on_path, shard=tuple(job["shard"]) if job.get("shard") else None)
    out.d["stats"] = dict(eng.stats)
    return out.d


# ----------------------------------------------------------------- replays (real code, independent dE oracle)

def _rgb(inp, p):
    return (int(inp[p + "r"]), int(inp[p + "g"]), int(inp[p + "b"]))


def replay_routine(inp):
    from cm_colors.core import optimisation as opt
    from ..refde import delta_e_2000_rgb
    job = inp["_job"]
    t, b = _rgb(inp, "t"), _rgb(inp, "b")
    tol = float(inp.get("tol", 2.0))
    target = float(inp.get("target", 7.0))
    if job["kind"] == "bisect":
        res = opt.binary_search_lightness(t, b, tol, target)
    elif job["kind"] == "descent":
        res = opt.gradient_descent_oklch(t, b, tol, target)
    else:
        seq = [float(inp["tol%d" % i]) for i in range(job["ks"])]
        res = opt.generate_accessible_color(t, b, False, target, float(inp.get("minc", 4.5)), seq)
        tol = max(seq)
        if res == t:
            return False, "returned its input"
    if res is None:
        return False, "returned None"
    ok = isinstance(res, tuple) and len(res) == 3 and all(isinstance(x, int) and 0 <= x <= 255 for x in res)
    de = delta_e_2000_rgb(t, res) if ok else None
    bad = (not ok) or de > tol + 0.002      # slack: the implementation's dE differs from the reference by < 2e-4
    return bad, "%s(%r,%r,tol=%r,target=%r) -> %r, reference dE=%r" % (job["kind"], t, b, tol, target, res, de)


def replay_default_schedule(inp):
    """mode 0 stays within dE 5.0 -- also right after a relaxed-mode run in the same process (schedules are per call)"""
    from cm_colors.core.colors import ColorPair
    from ..refde import delta_e_2000_rgb
    job = inp["_job"]
    t, b = _rgb(inp, "t"), _rgb(inp, "b")
    note = ""
    if job.get("after") == "relaxed":
        u = _rgb(inp, "u") if "ur" in inp else (128, 128, 128)
        v = _rgb(inp, "v") if "vr" in inp else (120, 120, 120)
        for very in (False, True):
            ColorPair(u, v).make_readable(mode=2, very_readable=very)
        note = "after make_readable(mode=2) on %r/%r: " % (u, v)
    worst = None
    for large in (False, True):
        for very in (False, True):
            res, ok = ColorPair(t, b, large).make_readable(mode=0, very_readable=very)
            de = delta_e_2000_rgb(t, tuple(res))
            if de > 5.0 + 0.05:
                worst = (large, very, res, round(de, 3))
    return worst is not None, note + "mode 0 on %r/%r: %r" % (t, b, worst)


def _ladder_default(job):
    from ..ladder import pairs
    ps = list(pairs())
    hard = [((128, 128, 128), (120, 120, 120)), ((100, 100, 100), (110, 110, 110)), ((200, 0, 0), (210, 0, 0))]
    for (u, v) in hard:
        for t, b in ps[::4]:
            yield dict(tr=t[0], tg=t[1], tb=t[2], br=b[0], bg=b[1], bb=b[2], ur=u[0], ug=u[1], ub=u[2], vr=v[0], vg=v[1], vb=v[2])


def replay_strategy(inp):
    from cm_colors.core import optimisation as opt
    from cm_colors.core.colors import ColorPair
    from ..refde import delta_e_2000_rgb
    t, b = _rgb(inp, "t"), _rgb(inp, "b")
    job = inp["_job"]
    worst = None
    for large in (False, True):
        for very in (False, True):
            res, ok = ColorPair(t, b, large).make_readable(mode=job["mode"], very_readable=very)
            if job["mode"] == 0 and res is not None:
                de = delta_e_2000_rgb(t, tuple(res))
                if de > 5.0 + 0.05:
                    worst = (large, very, res, de)
    return worst is not None, "mode %d on %r/%r: %r" % (job["mode"], t, b, worst)


def _ladder_routine(job):
    from ..ladder import pairs
    for tol in (2.46, 0.96, 4.92, 0.5, 0.8, 1.4, 2.0, 3.0, 5.0):
        for target in (21.0, 7.0, 4.5):
            for t, b in pairs():
                d = dict(tr=t[0], tg=t[1], tb=t[2], br=b[0], bg=b[1], bb=b[2], tol=tol, target=target, minc=target)
                for i in range(job.get("ks", 0)):
                    d["tol%d" % i] = tol if i == job["ks"] - 1 else round(tol * (i + 1) / job["ks"], 3)
                yield d


def _ladder_strategy(job):
    from ..ladder import pairs
    for t, b in pairs():
        yield dict(tr=t[0], tg=t[1], tb=t[2], br=b[0], bg=b[1], bb=b[2])


LADDER = {"bisect": _ladder_routine, "descent": _ladder_routine, "G": _ladder_routine, "strategy": _ladder_strategy,
          "G-default": _ladder_default}

REPLAYS = {"bisect": replay_routine, "descent": replay_routine, "G": replay_routine, "G-default": replay_default_schedule,
           "strategy": replay_strategy}


def main(tier, seed):
    return runner.main(ID, __name__, jobs(tier), tier, seed, meta_for(tier))
