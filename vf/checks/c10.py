"""C10 -- OKLCH conversion matches the OKLab definition; lossless on all 8-bit colours."""
import math
from fractions import Fraction

import z3

from .. import ref, repo, runner, symx
from ..harness import EPS, close, conj, dec, disj, eq_rgb, implies, is_valid8, load_core
from ..symx import SBool, SNum, SymRGB, lift, pre_round, sbool

ID = "C10"
RT_TOL = Fraction(1, 10 ** 5)     # round-trip chain: box bound (B) and the half-width of the table intervals (A/C)

META = dict(
    explanation=(
        "symx executes the real rgb_to_oklch, oklch_to_rgb and their *_safe wrappers.  Forward: three symbolic 8-bit channels; per path z3 "
        "compares L, the OKLab a/b that feed the chroma and hue computation, C and H with a reference written from Ottosson's publication "
        "(matrices typed independently), cube roots / sqrt / atan2 as uninterpreted functions with sign/range axioms so that equality is "
        "decided by congruence and any changed coefficient, sign or branch is a linear-arithmetic witness; ranges L in [0,1], C >= 0, "
        "H in [0,360].  Inverse: (L, C, H) free reals in [0,1] x [0,0.5] x [0,360]; the linear-light values before clipping equal the reference "
        "inverse (cubic polynomial identity over UF cos/sin), every output is a valid 8-bit colour, (0,0,.) is black and (1,0,.) white.  "
        "Safe variants equal the plain ones on valid input and return valid values on invalid triples."),
    functions=["conversions.rgb_to_oklch", "conversions.oklch_to_rgb", "conversions.srgb_to_linear", "conversions.linear_to_srgb",
               "conversions.calculate_hue_angle", "conversions.rgb_to_oklch_safe", "conversions.oklch_to_rgb_safe", "conversions.is_valid_oklch",
               "conversions.is_valid_rgb"],
    bounds=["forward: all 2^24 colours", "inverse: all real (L,C,H) in [0,1] x [0,0.5] x [0,360]; invalid triples: L in [-2,3], C in [-1,2], H in [-720,1080]",
            "real model of doubles, guard band 1e-9"],
    outside=["magnitudes of cube roots / trigonometric values (uninterpreted: equality with the reference formula is decided, not numeric closeness to an "
             "unrelated formula)", "the exhaustive 2^24 round trip (needs the numeric values of cbrt/cos/sin/atan2: see DESIGN C10.3) -- NOT claimed by this check",
             "'C=0 gives grey within one unit' needs a Lipschitz bound of x^(1/2.4); decided only as 'channels computed from identical linear values up to 1e-9'"],
    trusted=["z3", "vf/ref.py OKLab reference (Ottosson's matrices)"],
    assumptions=["doubles as reals; H < 360 strictly is not decided (a hue of -1e-17 degrees rounds to 360.0 in doubles)"],
)


def jobs(tier):
    js = [dict(kind="forward", case=i) for i in range(8)]
    js += [dict(kind="inverse", case=i) for i in range(8)]
    js += [dict(kind="inverse-special"), dict(kind="safe-fwd"), dict(kind="safe-inv-valid"), dict(kind="safe-inv-invalid")]
    # round trip, as a chain (DESIGN C10.3): (B) box bound on the composed real code, (A/C) per-value table obligations
    if __import__("os").environ.get("VERIF_C10_BOX") == "1":
        # step (B) of the chain: NOT part of either tier -- the NRA query is erratic (cvc5 59 s on one path at 1e-6, time-outs at
        # 1e-5 and on sub-boxes, z3 never), see DESIGN C10.3.  Kept runnable for whoever wants to try a stronger back end.
        for i in range(8):
            js.append(dict(kind="rt-box", shard=[i, 8, 12]))
    for i in range(8):
        js.append(dict(kind="rt-table", lo=32 * i, hi=32 * i + 31))
    return js


def run_job(job):
    m = load_core()
    conv = m.conversions
    kind = job["kind"]
    # the inverse conversion is cubic in (L, C*cos, C*sin): z3's incremental core mostly answers 'unknown' on those
    # feasibility questions, so do not wait for it (unknown keeps both branches; the obligations decide)
    eng = symx.Engine(feas_timeout_ms=400 if kind in ("forward", "safe-fwd") else 40)
    out = runner.JobOut(job)

    if kind == "forward":
        def fn():
            rgb = eng.rgb_var("t")
            for j, ch in enumerate(rgb):
                eng.assume(ch >= 11 if (job["case"] >> j) & 1 else ch <= 10)
            L, C, H = conv.rgb_to_oklch(rgb)
            Lr, ar, br = ref.oklab_from_rgb(rgb)
            Lr = symx.smax(0.0, symx.smin(1.0, Lr))
            eng.oblige("L == OKLab L (clamped to [0,1])", close(L, Lr))
            eng.oblige("L in [0,1], C >= 0, H in [0,360]", conj(L >= 0, L <= 1, lift(C) >= 0, lift(H) >= 0, lift(H) <= 360))
            Cr = ref.M.sqrt(ar * ar + br * br)
            eng.oblige("C == sqrt(a^2+b^2) of the OKLab a, b", close(C, Cr))
            # hue: atan2 of the reference's (b, a) in degrees, shifted into [0,360); 0 for (near-)achromatic colours
            hue = ref.M.atan2(br, ar) * 180 / math.pi
            Hr = symx.ite(hue < 0, hue + 360, hue)
            achrom = sbool(Cr < 1e-10) | conj(ar == 0, br == 0)
            eng.oblige("H == hue angle of the OKLab (a,b); 0 when achromatic", SBool(z3.If(achrom.e, (lift(H) == 0).e, close(H, Hr).e)))
            return (L, C, H)
        rk = "forward"
    elif kind in ("inverse", "inverse-special"):
        def fn():
            L = eng.real_var("L", 0, 1)
            C = eng.real_var("C", 0, Fraction(1, 2))
            H = eng.real_var("H", 0, 360)
            if kind == "inverse":
                pass
            got = conv.oklch_to_rgb((L, C, H))
            eng.oblige("valid 8-bit colour", is_valid8(tuple(got)))
            a = C * ref.M.cos(H * math.pi / 180.0)
            b = C * ref.M.sin(H * math.pi / 180.0)
            lin = ref.oklab_to_linear(L, a, b)
            def round_arg(o):
                """the pre-rounding term of the round() result that this output channel is (a clamp of), if any"""
                if not isinstance(o, SNum):
                    return None
                stack, seen = [o.t], set()
                while stack:
                    t = stack.pop()
                    if t.get_id() in seen:
                        continue
                    seen.add(t.get_id())
                    if t.get_id() in eng.round_log:
                        return SNum(eng.round_log[t.get_id()])
                    stack.extend(t.children())
                return None

            for ch, o, e in zip("rgb", got, lin):
                clipped = symx.smax(0.0, symx.smin(1.0, e))
                want = ref.srgb_gamma(clipped) * 255
                x = round_arg(o)
                if x is not None:
                    eng.oblige("%s: pre-rounding value == 255 * gamma(clip(reference linear value))" % ch, close(x, want, Fraction(1, 10 ** 6)))
                else:
                    # the channel is concrete on this path (its linear value was clipped to a constant): nearest 8-bit value of the reference
                    eng.oblige("%s: channel is the nearest 8-bit value of 255 * gamma(clip(reference linear value))" % ch,
                               close(lift(o), want, Fraction(1, 2) + Fraction(1, 10 ** 6)))
            if kind == "inverse-special":
                eng.oblige("L=0, C=0 -> black", implies(conj(L == 0, C == 0), eq_rgb(got, (0, 0, 0))))
                eng.oblige("L=1, C=0 -> white", implies(conj(L == 1, C == 0), eq_rgb(got, (255, 255, 255))))
            return got
        rk = "inverse"
    elif kind == "safe-fwd":
        real = conv.rgb_to_oklch
        spy = []
        conv.rgb_to_oklch = lambda rgb: (spy.append([rgb, real(rgb)]), spy[-1][1])[1]

        def fn():
            spy.clear()
            rgb = eng.rgb_var("t")
            a = conv.rgb_to_oklch_safe(rgb)
            eng.oblige("rgb_to_oklch_safe returns rgb_to_oklch's result on valid input",
                       sbool(len(spy) == 1 and spy[0][0] is rgb and a is spy[0][1]))
            return a
        rk = "safe-fwd"
    elif kind == "safe-inv-valid":
        real = conv.oklch_to_rgb
        spy = []
        conv.oklch_to_rgb = lambda t: (spy.append([t, real(t)]), spy[-1][1])[1]

        def fn():
            spy.clear()
            L = eng.real_var("L", 0, 1)
            C = eng.real_var("C", 0, Fraction(1, 2))
            H = eng.real_var("H", 0, 360)
            trip = (L, C, H)
            a = conv.oklch_to_rgb_safe(trip)
            eng.oblige("oklch_to_rgb_safe returns oklch_to_rgb's result on valid input",
                       sbool(len(spy) == 1 and spy[0][0] is trip and a is spy[0][1]))
            eng.oblige("valid 8-bit colour", is_valid8(tuple(a)))
            return a
        rk = "inverse"
    elif kind == "safe-inv-invalid":
        def fn():
            L = eng.real_var("L", -2, 3)
            C = eng.real_var("C", -1, 2)
            H = eng.real_var("H", -720, 1080)
            # an INVALID triple (valid ones are the 'safe-inv-valid' job)
            eng.assume(SBool(z3.Or((L < 0).e, (L > 1).e, (C < 0).e, (H < 0).e, (H > 360).e)))
            a = conv.oklch_to_rgb_safe((L, C, H))
            eng.oblige("valid 8-bit colour on any triple", is_valid8(tuple(a)))
            return a
        rk = "inverse"
    elif kind == "rt-box":
        # (B) The composed real code rgb_to_oklch -> oklch_to_rgb on linear-light values relaxed to the whole cube [0,1]^3
        # (the 256 tabulated values are in it): the linear values handed to the final gamma step differ from the
        # originals by at most RT_TOL (1e-5).  Cube roots / sqrt are ALGEBRAIC here (y^3 = x, y^2 = x, exact), cos/sin/atan2
        # are uninterpreted under the polar identities C*cos(h) = a, C*sin(h) = b for the angle the code computed.
        eng = symx.Engine(feas_timeout_ms=40, algebraic=True)
        vin, vout, trig = [], [], {}
        conv.srgb_to_linear = lambda c: (vin.append(eng.real_var("v%d" % len(vin), 0, 1)), vin[-1])[1]
        conv.linear_to_srgb = lambda x: (vout.append(x), eng.real_var("w%d" % len(vout), 0, 1))[1]
        sm = conv.math
        real_atan2, real_cos, real_sin, real_sqrt = sm.atan2, sm.cos, sm.sin, sm.sqrt

        class Spy(type(sm)):
            def atan2(self, y, x):
                trig["ba"] = (y, x)
                return real_atan2(y, x)

            def cos(self, t):
                trig["t"] = t
                return real_cos(t)

            def sqrt(self, x):
                r = real_sqrt(x)
                trig.setdefault("C", r)
                return r

        conv.math = Spy()
        unclipped = []
        inj_min = conv.min

        def spy_min(*a):
            # the clamp max(0.0, min(1.0, x)) of the inverse: remember the unclipped linear values
            if len(a) == 2 and a[0] == 1.0 and isinstance(a[1], SNum):
                unclipped.append(a[1])
            return inj_min(*a)

        conv.min = spy_min
        TOL = RT_TOL
        TR = Fraction(1, 10 ** 12)

        def fn():
            vin.clear()
            vout.clear()
            trig.clear()
            unclipped.clear()
            rgb = eng.rgb_var("t")           # only carriers: srgb_to_linear is the relaxation stub
            L, C, H = conv.rgb_to_oklch(rgb)
            out_ = conv.oklch_to_rgb((L, C, H))
            t = trig.get("t")
            f_cos, f_sin = eng.ufs.get(("cos", 1)), eng.ufs.get(("sin", 1))
            rewrite = []
            if t is not None and f_cos is not None and f_sin is not None:
                tt = lift(t).real()
                cc, ss = SNum(f_cos(tt)), SNum(f_sin(tt))
                if "ba" in trig:
                    b_, a_ = trig["ba"]
                    Cc = trig["C"]
                    # trusted trigonometric identities for the angle computed from atan2(b, a) (with or without +360 deg)
                    eng.assume(Cc * cc == a_)        # exact in real arithmetic (double noise ~1e-16 is absorbed by the RT_TOL bound)
                    eng.assume(Cc * ss == b_)
                    rewrite = [((Cc * cc).real(), lift(a_).real()), ((Cc * ss).real(), lift(b_).real())]
                else:
                    eng.assume(cc == 1)              # hue 0: cos 0 = 1, sin 0 = 0
                    eng.assume(ss == 0)
            eng.oblige("three linear values reach the gamma step", sbool(len(vout) == 3 and len(vin) == 3 and len(unclipped) >= 3))
            # range lemma for the cube roots of the LMS responses (proved by the ordinary solver; used by the linearisation)
            f13 = eng.ufs.get(("pow_1_3", 1))
            cb = []
            if f13 is not None:
                from ..runner import _uf_apps
                cb = _uf_apps([lift(x).real() for x in unclipped[-3:]], {f13.name()})
            HI = 1 + Fraction(1, 10 ** 9)
            eng.oblige("cube roots of the LMS responses lie in [0, 1+1e-9]",
                       conj(*[SBool(z3.And(t >= 0, t <= symx.rv(HI))) for t in cb]) if cb else sbool(False))
            req = ["cube roots of the LMS responses lie in [0, 1+1e-9]"]
            lemmas = []
            if len(unclipped) >= 4:
                Lraw = unclipped[0]          # the forward conversion's lightness before its clamp to [0,1]
                nm = "OKLab lightness before clamping lies in [0,1] on the whole cube (so the clamp is the identity)"
                eng.oblige(nm, conj(lift(Lraw) >= 0, lift(Lraw) <= 1))
                req.append(nm)
                lemmas.append(conj(lift(Lraw) >= 0, lift(Lraw) <= 1).e)
            pl = dict(uf_ranges={f13.name(): (0, HI)} if f13 is not None else {}, var_ranges=[(lift(x).real(), 0, 1) for x in vin],
                      requires=req, lemmas=lemmas)
            # stated on the UNCLIPPED values (clipping a value that is within RT_TOL of v in [0,1] keeps it within RT_TOL)
            for ch, a, b in zip("rgb", unclipped[-3:], vin):
                eng.oblige("round trip, linear light %s: |v'' - v| <= RT_TOL on the whole cube" % ch, close(a, b, TOL), rewrite=rewrite or None,
                           drop_ufs=["F_cos", "F_sin", "F_atan2", "F_sqrt"] if rewrite else None, polylin=pl)
            return out_
        rk = "roundtrip"
    elif kind == "rt-table":
        # (A)/(C) per 8-bit value k: the real srgb_to_linear(k/255) lies in an exact rational enclosure [A_k, B_k]; the real
        # linear_to_srgb + rounding maps both A_k - RT_TOL and B_k + RT_TOL (clipped to [0,1]) to k, on the same branch.
        # With (B) and the monotonicity of the transfer function on each branch this gives round(...) == k for all 2^24.
        def fn():
            k = eng.int_var("k", job["lo"], job["hi"])
            from ..symx import enclose_pow
            for kv in range(job["lo"], job["hi"] + 1):
                if not eng.branch((k == kv).e):
                    continue
                c = Fraction(kv, 255)
                if c <= Fraction(4045, 100000):
                    A = B = c / Fraction(1292, 100)
                    A, B = A * (1 - Fraction(1, 10 ** 12)), B * (1 + Fraction(1, 10 ** 12))
                else:
                    A, B = enclose_pow((c + Fraction(55, 1000)) / Fraction(1055, 1000), 12, 5)
                    A, B = A * (1 - Fraction(1, 10 ** 11)), B * (1 + Fraction(1, 10 ** 11))
                lin = conv.srgb_to_linear(k / 255.0)
                eng.oblige("srgb_to_linear(%d/255) in the exact enclosure" % kv, conj(lift(lin) >= A, lift(lin) <= B))
                branches = []
                for nm, x in (("low", max(Fraction(0), A - RT_TOL)), ("high", min(Fraction(1), B + RT_TOL))):
                    xs = SNum(symx.rv(x))
                    branches.append(x <= Fraction(31308, 10 ** 7))
                    y = conv.linear_to_srgb(xs)
                    n = max(0, min(255, round(y * 255)))
                    eng.oblige("linear_to_srgb + rounding maps the %s end of [v_k - 1e-5, v_k + 1e-5] back to k = %d" % (nm, kv), lift(n) == kv)
                eng.oblige("the interval around v_%d lies on one branch of the transfer function" % kv, sbool(branches[0] == branches[1]))
                return kv
            return None
        rk = "roundtrip"
    else:
        raise ValueError(kind)

    def on_path(pr):
        if pr.outcome == "exc":
            pr.obligations = [("no exception (%s: %s)" % (type(pr.exc).__name__, str(pr.exc)[:100]), z3.BoolVal(False), {})]
        runner.discharge(ID, job, pr, out, rk, ext_timeout_s=120)

    shard = (job["case"], 8, 6) if kind == "inverse" else (tuple(job["shard"]) if job.get("shard") else None)
    eng.explore(fn, on_path, shard=shard)
    out.d["stats"] = dict(eng.stats)
    return out.d


# ----------------------------------------------------------------- replays

def replay_forward(inp):
    from cm_colors.core.conversions import rgb_to_oklch, rgb_to_oklch_safe
    from ..refde import rgb_to_oklch as ref_oklch
    t = (int(inp["tr"]), int(inp["tg"]), int(inp["tb"]))
    got = rgb_to_oklch(t)
    want = ref_oklch(t)
    bad = abs(got[0] - max(0.0, min(1.0, want[0]))) > 1e-6 or abs(got[1] - want[1]) > 1e-6 or not (0 <= got[0] <= 1 and got[1] >= 0 and 0 <= got[2] <= 360)
    if want[1] >= 1e-6:
        dh = abs(got[2] - want[2]) % 360
        if min(dh, 360 - dh) > 1e-4:
            bad = True
    if rgb_to_oklch_safe(t) != got:
        bad = True
    return bad, "rgb_to_oklch(%r) = %r, OKLab reference %r, safe %r" % (t, got, want, rgb_to_oklch_safe(t))


def replay_inverse(inp):
    from cm_colors.core.conversions import oklch_to_rgb, oklch_to_rgb_safe
    L, C, H = float(dec(inp["L"], 12)), float(dec(inp["C"], 12)), float(dec(inp["H"], 9))
    a = C * math.cos(math.radians(H))
    b = C * math.sin(math.radians(H))
    lin = ref.oklab_to_linear(L, a, b)
    want = [255 * float(ref.srgb_gamma(max(0.0, min(1.0, v)))) for v in lin]
    valid_in = 0 <= L <= 1 and C >= 0 and 0 <= H <= 360
    try:
        safe = oklch_to_rgb_safe((L, C, H))
        got = oklch_to_rgb((L, C, H)) if valid_in else safe
    except Exception as e:
        return True, "oklch_to_rgb(%r) raised %r" % ((L, C, H), e)
    ok8 = lambda v: isinstance(v, tuple) and len(v) == 3 and all(isinstance(x, int) and 0 <= x <= 255 for x in v)
    bad = not ok8(got) or not ok8(safe)
    if valid_in:
        if any(abs(g - w) > 0.5 + 1e-4 for g, w in zip(got, want)) or safe != got:
            bad = True
        if L == 0 and C == 0 and got != (0, 0, 0):
            bad = True
        if L == 1 and C == 0 and got != (255, 255, 255):
            bad = True
    return bad, "oklch_to_rgb(%r) = %r (safe %r); reference pre-rounding %r" % ((L, C, H), got, safe, [round(w, 4) for w in want])


def _ladder_fwd(job):
    from ..ladder import colours
    for t in colours():
        yield dict(tr=t[0], tg=t[1], tb=t[2])


def _ladder_inv(job):
    for L in (0, 0.05, 0.3, 0.5, 0.7, 0.95, 1):
        for C in (0, 0.02, 0.1, 0.2, 0.37, 0.5):
            for H in (0, 30, 90, 135, 180, 225, 270, 315, 360):
                yield dict(L=Fraction(L).limit_denominator(1000), C=Fraction(C).limit_denominator(1000), H=Fraction(H))


def replay_roundtrip(inp):
    """the exhaustive ground truth of the round trip, restricted to what a counterexample can name: a colour (or, for the
    table jobs, a channel value k) -- judged by actually converting forth and back with the real code"""
    from cm_colors.core.conversions import rgb_to_oklch, oklch_to_rgb
    bad = []
    if "k" in inp:
        k = int(inp["k"])
        cols = [(k, k, k), (k, 0, 0), (0, k, 0), (0, 0, k), (k, 255, 255), (255, k, 0), (17, 200, k)]
    else:
        cols = [tuple(int(inp.get("t" + c, 0)) for c in "rgb")]
        import itertools
        cols += [(r, g, b) for r, g, b in itertools.product((0, 1, 10, 11, 64, 127, 128, 200, 254, 255), repeat=3)]
    for c in cols:
        back = oklch_to_rgb(rgb_to_oklch(c))
        if back != c:
            bad.append((c, back))
    return bool(bad), "round trip mismatches: %r" % (bad[:5],)


def _ladder_rt(job):
    yield dict(tr=8, tg=9, tb=9)


REPLAYS = {"forward": replay_forward, "safe-fwd": replay_forward, "inverse": replay_inverse, "roundtrip": replay_roundtrip}
LADDER = {"forward": _ladder_fwd, "safe-fwd": _ladder_fwd, "inverse": _ladder_inv, "roundtrip": _ladder_rt}


def main(tier, seed):
    return runner.main(ID, __name__, jobs(tier), tier, seed, META)
