"""C19 -- reports are injection-safe: user text appears only HTML-escaped (E2: CrossHair over the real generators)."""
import os

from .. import e2

ID = "C19"
HARNESS = os.path.join(os.path.dirname(os.path.dirname(os.path.abspath(__file__))), "e2h", "c19_harness.py")

META = dict(
    explanation=(
        "CrossHair executes the real report generators -- visualiser.to_html, visualiser.to_html_bulk and cli.html_report.generate_report "
        "(module-level open() redirected to memory) -- with a symbolic string in one user-controlled slot at a time (foreground, background, "
        "tuned colour, selector, file name; for the CLI report also the level strings); z3 searches for a string for which the report differs "
        "from the benign-marker report with the marker replaced by html.escape(s, quote=True): any raw occurrence, an unescaped quote inside a "
        "style attribute, or any other structural change is a counterexample."),
    functions=["visualiser.to_html", "visualiser.to_html_bulk", "visualiser._get_level_badge", "html_report.generate_report"],
    bounds=["one slot symbolic at a time, the others benign; strings of one and of two symbolic characters over the full Unicode alphabet (covers every single metacharacter "
            "and pairs such as '\">', '&<')"],
    outside=["strings longer than 3 (escaping is per character, so an unescaped character is already visible at length 1)", "DOM-equality phrasing of the "
             "property: implied by the escaped-template equality for the explored strings", "the level slots of the API report cards (not user text)"],
    assumptions=["'Not confirmed' = no counterexample on the paths explored within the budget (bounded bug-hunting)"],
)


def main(tier, seed):
    return e2.main(ID, HARNESS, tier, seed, META, t_quick=45, t_thorough=90)
