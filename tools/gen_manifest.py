#!/usr/bin/env python3
"""Generates /verif/MANIFEST.json from the table below (kept in one place so it stays consistent)."""
import json, os
HERE = os.path.dirname(os.path.dirname(os.path.abspath(__file__)))

TECH = "symbolic execution of the real functions (symx proxies) + SMT verdict per path (z3/cvc5), counterexamples replayed"

CHECKS = {
 "C05": dict(
    text="Every feasible path of the real luminance / ratio / level / is_readable code over six symbolic 8-bit channels (and a free real ratio) "
         "is compared by the solver with an independent WCAG 2 reference; unsat on all paths = holds for all 2^24 colours / 2^48 pairs / all ratios, "
         "within a real-arithmetic model of doubles with a 1e-9 guard band.",
    note="doubles modelled as reals (guard band 1e-9); pow(x,2.4) as UF with exact rational enclosure tables; trusted: z3/cvc5, vf/ref.py, CPython floats",
    design="3 C05", technique=TECH, thorough=True),
 "C06": dict(
    text="The real rgb_to_hsl -> hsl_to_rgb / parse_color_to_rgb string round trip, rgb() strings, tuples and the format dispatch are executed "
         "symbolically for all 2^24 colours (numerals carried as tokens through the real string code); z3 proves the pre-rounding value equals the "
         "channel and that the CSS Color 3 hsl algorithm reads the emitted value back as the colour; an IEEE-754 (Float64) twin proves the emitted "
         "percentages pass the library's own range validation bit-exactly (compositional proof, every step an SMT query). Hex is a bounded clause only.",
    note="real model with 1e-9 guard for the value identity, exact binary64 for range acceptance (upper bounds, NaN, division safety); float(repr(x))==x assumed; "
         "hex output/input outside the symbolic claim",
    design="3 C06", technique=TECH + "; QF_BVFP twin for rounding-sensitive kernels", thorough=True),
 "C07": dict(
    text="parse_color_to_rgb and the hsl/hsla/rgba helpers behind it are executed on CSS strings with symbolic numerals inside concrete spelling templates; "
         "per path the solver compares with the CSS Color 3 algorithms (nearest 8-bit value for opaque forms, within 1.5 of the source-over blend for translucent "
         "forms over any background), equivalent spellings give identical terms, 3-tuples/lists parse to themselves, 148 keywords are ground obligations.",
    note="components range over their whole documented domain (8-bit ints, real percentages, hue in [-720,1080], alpha in [0,1]); spelling dimension is a finite "
         "template list; decimal literal -> double assumed exact; hex strings outside the symbolic claim",
    design="3 C07", technique=TECH, thorough=True),
}

NA = {
 "C03": "numerical search completeness (20-step bisection x 50-step descent through cos/sin/cube-root/CIEDE2000) has no solver-reachable encoding; UF abstraction forgets the magnitudes the premise quantifies over",
 "C09": "byte-level file effects and structural preservation through tinycss2's regex tokenizer over arbitrary stylesheets cannot be encoded within reach",
 "C15": "interpreter-level history/thread/process state is not expressible as a bounded SMT problem over this code",
 "C17": "stdout/stderr and filesystem effects of rich/print/open are not solver values",
 "C18": "directory traversal and filesystem fault sequences are outside any encoding available here",
}

def main():
    checks = []
    for cid in sorted(CHECKS):
        c = CHECKS[cid]
        e = dict(property_id=cid, quick_cmd="./check %s --tier quick" % cid, evidence_file="evidence/%s.json" % cid,
                 replay_cmd_template="./check %s --replay {path}" % cid, engine=c.get("engine", "symx"),
                 level_claimed=dict(category=c.get("category", "other"), text=c["text"], design_ref=c["design"]),
                 level_note=c["note"], technique=c["technique"])
        if c.get("thorough"):
            e["thorough_cmd"] = "./check %s --tier thorough" % cid
        checks.append(e)
    na = [dict(property_id=k, reason=v) for k, v in sorted(NA.items()) if k not in CHECKS]
    allp = [json.loads(l)["id"] for l in open(os.path.join(HERE, "properties.jsonl"))]
    for p in allp:
        if p not in CHECKS and p not in NA:
            na.append(dict(property_id=p, reason="check not built yet in this round (planned, see DESIGN.md section 3)"))
    na.sort(key=lambda d: d["property_id"])
    m = dict(version=1, setup_cmd="sh ./setup.sh",
             hooks=dict(guard="CM_COLORS_VERIF", enable="no source hooks: all interception is namespace injection inside the harness process",
                        baseline_off_cmd="cd /repo && /venv/bin/python -m pytest -ra -q -p no:cacheprovider --timeout=900 --continue-on-collection-errors",
                        source_commits=[], add_only=True),
             engines=[dict(name="symx", path="vf/symx.py", serves_properties=sorted(CHECKS),
                           kind_free_text="proxy-object symbolic execution of the real Python functions, z3 per path, external portfolio (cvc5, z3 4.8.12)")],
             checks=checks, not_applicable=na,
             notes="exit 0 = all obligations unsat within stated bounds; exit 1 = reproduced violation; exit 2 = inconclusive (never a violation)")
    json.dump(m, open(os.path.join(HERE, "MANIFEST.json"), "w"), indent=1)
    print("wrote MANIFEST.json with", len(checks), "checks,", len(na), "n/a")

main()
