#!/usr/bin/env python3
"""Dev tool: run a check against a mutated scratch copy of the repository.

usage: tools/mut.py <CHECK_ID> <relative file under src/cm_colors> <old> <new> [--tier quick] [--tests]
The scratch copy lives under /tmp/vf_mut_<pid> and is removed afterwards; /repo is never touched.
"""
import os, shutil, subprocess, sys, tempfile
args = sys.argv[1:]
tests = "--tests" in args
if tests: args.remove("--tests")
tier = "quick"
if "--tier" in args:
    i = args.index("--tier"); tier = args[i+1]; del args[i:i+2]
cid, rel, old, new = args
d = tempfile.mkdtemp(prefix="vf_mut_")
try:
    shutil.copytree("/repo/src", d + "/src")
    shutil.copytree("/repo/tests", d + "/tests")
    p = os.path.join(d, "src/cm_colors", rel)
    s = open(p).read()
    if s.count(old) != 1:
        print("pattern occurs %d times" % s.count(old)); sys.exit(3)
    open(p, "w").write(s.replace(old, new))
    env = dict(os.environ, VERIF_REPO=d)
    if tests:
        r = subprocess.run(["/venv/bin/python", "-m", "pytest", "-q", "-x", "-p", "no:cacheprovider", "tests"], cwd=d,
                           env=dict(os.environ, PYTHONPATH=d + "/src"), capture_output=True, text=True)
        print("pytest:", r.stdout.strip().splitlines()[-1] if r.stdout.strip() else r.stderr[-300:])
    r = subprocess.run(["/verif/check", cid, "--tier", tier], env=env, capture_output=True, text=True)
    print(r.stdout[-1500:]); print(r.stderr[-800:]); print("rc=", r.returncode)
    # keep evidence of the real tree: restore by git
    subprocess.run(["git", "-C", "/verif", "checkout", "--", "evidence"], capture_output=True)
    subprocess.run(["git", "-C", "/verif", "clean", "-fdq", "replays"], capture_output=True)
finally:
    shutil.rmtree(d, ignore_errors=True)
