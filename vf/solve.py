"""Discharging obligations: in-process z3 (5.x wheel) first, then an external portfolio
(/usr/bin/z3 4.8.12, cvc5 1.0.3 binary, z3-new) run in parallel on the SMT-LIB2 text.

A verdict is 'unsat' (obligation holds on this path), 'sat' (with a model) or
'unknown'.  'unknown', a timeout or any '(error' line is never success.
"""
from __future__ import annotations

import os
import re
import shutil
import subprocess
import tempfile
import time
from fractions import Fraction

import z3

from .symx import z3_to_frac

STATS = dict(queries=0, inproc_time=0.0, ext_time=0.0, ext_runs=0, by_solver={})
SEED = 0     # changed by the runner when a job is re-run after an inconclusive attempt


def _bump(solver):
    STATS["by_solver"][solver] = STATS["by_solver"].get(solver, 0) + 1


def model_values(model, inputs):
    out = {}
    for name, v in inputs.items():
        val = model.eval(v, model_completion=True)
        if z3.is_bool(val):
            out[name] = z3.is_true(val)
        elif z3.is_bv_value(val):
            out[name] = val.as_long()
        else:
            f = z3_to_frac(val)
            if f is None:
                out[name] = str(val)
            elif f.denominator == 1:
                out[name] = int(f)
            else:
                out[name] = f
    return out


def decide(constraints, negated_goal, inputs, timeout_ms=10000, ext_timeout_s=60, use_external=True, logic=None):
    """Is constraints & negated_goal satisfiable?  -> (verdict, model_dict|None, info)"""
    STATS["queries"] += 1
    s = z3.Solver()
    s.set("timeout", timeout_ms)
    if SEED:
        s.set("random_seed", SEED)
    s.add(*constraints)
    s.add(negated_goal)
    t0 = time.time()
    r = s.check()
    dt = time.time() - t0
    STATS["inproc_time"] += dt
    info = {"solver": "z3-5.1.0(in-process)", "time_s": round(dt, 4)}
    if r == z3.unsat:
        _bump("z3py")
        return "unsat", None, info
    if r == z3.sat:
        _bump("z3py")
        return "sat", model_values(s.model(), inputs), info
    if not use_external:
        return "unknown", None, info
    verdict, model, einfo = external_portfolio(list(constraints) + [negated_goal], inputs, ext_timeout_s, logic)
    info.update(einfo)
    return verdict, model, info


def guess_logic(smt2):
    has_int = "Int" in smt2
    nonlin = False  # let the solvers work it out; ALL is accepted by both
    return "ALL"


_VAL_RE = re.compile(r"\(\s*([^\s()|]+|\|[^|]*\|)\s+(.*?)\)\s*$")


def parse_sexpr_number(tok_stream):
    raise NotImplementedError


def _parse_value(txt):
    """Parse an SMT-LIB numeral / decimal / (- x) / (/ a b) value."""
    txt = txt.strip()
    toks = re.findall(r"\(|\)|[^\s()]+", txt)
    pos = [0]

    def parse():
        t = toks[pos[0]]
        pos[0] += 1
        if t == "(":
            op = toks[pos[0]]
            pos[0] += 1
            args = []
            while toks[pos[0]] != ")":
                args.append(parse())
            pos[0] += 1
            if op == "-":
                return -args[0] if len(args) == 1 else args[0] - args[1]
            if op == "/":
                return Fraction(args[0]) / Fraction(args[1])
            if op == "to_real":
                return args[0]
            raise ValueError("unparsed value op " + op)
        if t == "true":
            return True
        if t == "false":
            return False
        if "." in t:
            return Fraction(t)
        return Fraction(int(t))

    return parse()


def external_portfolio(solver, inputs, timeout_s, logic=None):
    # export from a FRESH solver: after check() z3 may print its internal, preprocessed assertions
    # (e.g. bvudiv_i over 161-bit vectors for FP division), which no parser accepts
    fresh = z3.Solver()
    fresh.add(*(solver.assertions() if not isinstance(solver, (list, tuple)) else solver))
    smt = fresh.to_smt2()
    # to_smt2 ends with (check-sat); add get-value for the inputs
    # only ask for values of inputs that the formula actually declares
    names = [n for n in inputs.keys() if ("declare-fun %s " % _quote(n)) in smt or ("declare-const %s " % _quote(n)) in smt]
    smt = smt.replace("(check-sat)", "")
    head = "(set-option :produce-models true)\n(set-logic %s)\n" % (logic or "ALL")
    body = smt
    if names:
        getv = "(check-sat)\n(get-value (%s))\n" % " ".join(_quote(n) for n in names)
    else:
        getv = "(check-sat)\n"
    text = head + body + getv
    d = tempfile.mkdtemp(prefix="vf_smt_")
    path = os.path.join(d, "q.smt2")
    with open(path, "w") as f:
        f.write(text)
    cmds = []
    if shutil.which("cvc5"):
        cmds.append(("cvc5-1.0.3", ["cvc5", "--tlimit=%d" % (timeout_s * 1000), path]))
    if os.path.exists("/usr/bin/z3"):
        cmds.append(("z3-4.8.12", ["/usr/bin/z3", "-T:%d" % timeout_s, path]))
    if shutil.which("z3-new"):
        cmds.append(("z3-new", ["z3-new", "-T:%d" % timeout_s, path]))
    procs = []
    t0 = time.time()
    for name, cmd in cmds:
        try:
            procs.append((name, subprocess.Popen(cmd, stdout=subprocess.PIPE, stderr=subprocess.STDOUT, text=True)))
        except OSError:
            pass
    STATS["ext_runs"] += 1
    verdict, model, winner = "unknown", None, None
    answers = {}
    pending = list(procs)
    try:
        while pending and time.time() - t0 < timeout_s + 5:
            for item in list(pending):
                name, p = item
                if p.poll() is None:
                    continue
                pending.remove(item)
                out = p.stdout.read()
                first = out.strip().splitlines()[0].strip() if out.strip() else ""
                # an '(error' before the verdict (or with a sat verdict) makes the answer unusable; the
                # 'cannot get-value after unsat' complaint that follows an unsat verdict is benign
                errs = [l for l in out.splitlines() if "(error" in l]
                if first not in ("sat", "unsat") and errs:
                    answers[name] = "error: " + errs[0][:120]
                    continue
                if first == "sat" and errs:
                    answers[name] = "sat+error: " + errs[0][:120]
                    continue
                if first == "unsat" and any("get value" not in e.lower() and "model is not available" not in e for e in errs):
                    answers[name] = "unsat+error: " + errs[0][:120]
                    continue
                if first in ("sat", "unsat"):
                    answers[name] = first
                    if verdict == "unknown":
                        verdict, winner = first, name
                        if first == "sat":
                            try:
                                model = _parse_get_value(out, names)
                            except Exception:
                                model = None
                    elif verdict != first:
                        verdict = "disagree"
                else:
                    answers[name] = first or "no-answer"
            if verdict in ("sat", "unsat"):
                break
            time.sleep(0.02)
    finally:
        for _, p in procs:
            if p.poll() is None:
                p.kill()
        shutil.rmtree(d, ignore_errors=True)
    dt = time.time() - t0
    STATS["ext_time"] += dt
    if winner:
        _bump(winner)
    if verdict == "disagree":
        verdict = "unknown"
    if verdict == "sat" and model is None:
        verdict = "unknown"  # a sat answer we cannot turn into inputs is inconclusive
    return verdict, model, {"external": answers, "ext_time_s": round(dt, 3), "winner": winner}


def _quote(n):
    if re.fullmatch(r"[A-Za-z_][A-Za-z0-9_]*", n):
        return n
    return "|%s|" % n


def _parse_get_value(out, names):
    # everything after the first line
    rest = out.split("\n", 1)[1]
    # tokenise pairs: ((name value) (name value))
    toks = re.findall(r"\(|\)|\|[^|]*\||[^\s()]+", rest)
    pos = [0]

    def parse():
        t = toks[pos[0]]
        pos[0] += 1
        if t == "(":
            items = []
            while toks[pos[0]] != ")":
                items.append(parse())
            pos[0] += 1
            return items
        return t

    tree = parse()
    vals = {}

    def ev(x):
        if isinstance(x, list):
            op = x[0]
            args = [ev(a) for a in x[1:]]
            if op == "-":
                return -args[0] if len(args) == 1 else args[0] - args[1]
            if op == "/":
                return Fraction(args[0]) / Fraction(args[1])
            if op == "to_real":
                return args[0]
            raise ValueError(op)
        if x == "true":
            return True
        if x == "false":
            return False
        if x.startswith("#x"):
            return Fraction(int(x[2:], 16))
        if x.startswith("#b"):
            return Fraction(int(x[2:], 2))
        if "." in x:
            return Fraction(x)
        return Fraction(int(x))

    for pair in tree:
        n = pair[0].strip("|")
        v = ev(pair[1])
        if isinstance(v, Fraction) and v.denominator == 1:
            v = int(v)
        vals[n] = v
    return vals
