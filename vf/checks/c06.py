"""C06 -- output keeps the input's format and reads back as exactly the judged colour.

Sub-checks here: the formatters/parsers (hsl in the real model and in IEEE-754, rgb(), tuple, format dispatch).
The make_readable-level format mapping (succeeded / failed / unnecessary) is discharged by the API harness
of C01 (obligation names 'C06.1 ...'), which this check also runs for mode 0.
"""
import re
from fractions import Fraction

import z3

from .. import ref, repo, runner, symfp, symx
from ..harness import EPS, close, conj, dec, eq_rgb, implies, is_valid8, load_core
from ..symx import SBool, SNum, SymRGB, pre_round, sbool

ID = "C06"

META = dict(
    explanation=(
        "symx runs the real rgb_to_hsl -> hsl_to_rgb / parse_color_to_rgb string round trip with the three 8-bit channels "
        "symbolic and the emitted numerals carried as tokens through the real f-string, strip/lower/replace/re.split and "
        "float() code; per path z3 proves the pre-rounding value equals the channel (so round() returns it) and that the CSS "
        "Color 3 hsl algorithm applied to the emitted (H,S%,L%) gives the same colour.  An IEEE-754 twin (z3 Float64, 8-bit "
        "bit-vector inputs) re-executes rgb_to_hsl bit-exactly and proves the emitted percentages pass the library's own "
        "range validation.  rgb() strings, tuples and the format dispatch table are decided the same way."),
    functions=["colors.ColorPair.make_readable (format mapping, API harness of C01)", "conversions.rgb_to_hsl", "conversions.hsl_to_rgb", "conversions._parse_hue", "conversions._parse_hsl_percentage_or_decimal",
               "conversions.rgbint_to_string", "color_parser.parse_color_to_rgb", "color_parser.format_color",
               "color_parser.detect_color_format"],
    bounds=["all 2^24 colours (three symbolic 8-bit channels)", "real model (guard 1e-9) for the value identity; IEEE-754 binary64 (exact) for range acceptance",
            "float % 6 in the hue computation is modelled in the FP twin as any double in [0,6] (hue is not part of the acceptance clause)"],
    outside=["hex output/input (str.format '02x' and int(s,16) slice concrete strings): bounded CrossHair clause only, see DESIGN C06.4",
             "repr(float) -> decimal string -> float assumed to be the identity on the value"],
    trusted=["z3/cvc5 (QF_BVFP, NRA)", "vf/ref.py CSS Color 3 hsl algorithm", "CPython float repr round trip"],
    assumptions=["float(repr(x)) == x"],
)


def jobs(tier):
    js = [dict(kind="rgb-str"), dict(kind="dispatch")]
    for i in range(6):
        js.append(dict(kind="hsl-real", order=i))
    for i in range(6):
        js.append(dict(kind="hsl-fp", order=i))
    # C06.1: format mapping of make_readable per input spelling x outcome (API harness shared with C01)
    from . import c01
    for j in c01.jobs(tier):
        if tier == "quick" and (j["mode"] == 2 or (j["large"] != j["very"])):
            continue
        js.append(dict(j, which=["C06"]))
    return js


ORDERS = [(0, 1, 2), (0, 2, 1), (1, 0, 2), (1, 2, 0), (2, 0, 1), (2, 1, 0)]


def run_job(job):
    kind = job["kind"]
    if kind == "api":
        from . import c01
        return c01.run_api_job(job, {"C06"}, ID)
    out = runner.JobOut(job)
    if kind == "hsl-fp":
        conv = repo.load("cm_colors.core.conversions")
        symx.inject(conv)
        symfp.inject_fp(conv)
        eng = symx.Engine(feas_timeout_ms=150)

        def fn():
            rgb = tuple(symfp.bv8_var(eng, "t" + c) for c in "rgb")
            # split the 2^24 colours over six jobs by the order of the channels (ties included in each)
            o = ORDERS[job["order"]]
            eng.add_side(z3.And(z3.UGE(rgb[o[0]].t, rgb[o[1]].t), z3.UGE(rgb[o[1]].t, rgb[o[2]].t)))
            s = conv.rgb_to_hsl(rgb)
            m = re.fullmatch(r"hsl\((.*), (.*)%, (.*)%\)", s)
            eng.oblige("hsl() skeleton", sbool(m is not None))
            if m:
                vals = []
                for g in m.groups():
                    v = eng.tokens.get(g)
                    vals.append(v if v is not None else symfp.SFP(symfp.fpv(float(g))))
                H, S, L = [symfp.SFP.lift(v) for v in vals]
                # a literal zero saturation is the achromatic branch: it reads back as a grey, so it may only be taken for greys
                if m.group(2) == "0":
                    eng.oblige("achromatic output (S = 0) only for r == g == b (IEEE-754 branch decision)",
                               SBool(z3.And(rgb[0].t == rgb[1].t, rgb[1].t == rgb[2].t)))
                # the library's own validation: s = S/100, l = L/100 must satisfy 0 <= . <= 1 (conversions.hsl_to_rgb)
                # The upper bounds are where IEEE rounding is the question (the real-model job proves 0 <= S,L <= 100
                # over the reals; correctly rounded + - * / preserve the sign of an exact non-negative result).
                for nm, v in (("S", S), ("L", L)):
                    q = z3.fpDiv(symfp.RNE, v.t, symfp.fpv(100.0))
                    eng.oblige("emitted %s%% accepted by hsl_to_rgb (%s/100 <= 1, IEEE-754)" % (nm, nm),
                               SBool(z3.fpLEQ(q, symfp.fpv(1.0))), fp=True)
                    eng.oblige("emitted %s%% <= 100 (IEEE-754)" % nm, SBool(z3.fpLEQ(v.t, symfp.fpv(100.0))), fp=True)
                    eng.oblige("emitted %s%% is a number (not NaN, IEEE-754)" % nm, SBool(z3.Not(z3.fpIsNaN(v.t))), fp=True)
            return s
        rk = "hsl"
    else:
        m = load_core()
        conv, parser = m.conversions, m.color_parser
        eng = symx.Engine()
        if kind == "hsl-real":
            def fn():
                rgb = eng.rgb_var("t")
                o = ORDERS[job["order"]]
                eng.assume(rgb[o[0]] >= rgb[o[1]])
                eng.assume(rgb[o[1]] >= rgb[o[2]])
                s = conv.rgb_to_hsl(rgb)
                mt = re.fullmatch(r"hsl\((.*), (.*)%, (.*)%\)", s)
                eng.oblige("hsl() skeleton", sbool(mt is not None))
                vals = [eng.tokens[g] if g in eng.tokens else symx.lift(float(g)) for g in mt.groups()]
                H, S, L = vals
                eng.oblige("H in [0,360], S,L in [0,100]", conj(H >= 0, H <= 360, S >= 0, S <= 100 + EPS, L >= 0, L <= 100 + EPS))
                # plain decimal notation: python's repr uses an exponent only below 1e-4 / from 1e16
                for nm, v in (("H", H), ("S", S), ("L", L)):
                    eng.oblige("%s printed in plain decimal (0 or >= 1e-4)" % nm, sbool(v == 0) | sbool(v >= Fraction(1, 10000)))
                back = conv.hsl_to_rgb(s)
                back2 = parser.parse_color_to_rgb(s)
                eng.oblige("three int channels", sbool(isinstance(back, tuple) and len(back) == 3 and
                                                       all(isinstance(v, SNum) and v.is_int for v in back)))
                for ch, k, o in zip("rgb", rgb, back):
                    x = pre_round(eng, symx.lift(o))
                    weak = sbool(symx.lift(o) == k)
                    if x is not None:
                        eng.oblige("hsl_to_rgb(rgb_to_hsl(c)) %s == c" % ch, close(x, k, EPS), fallback=weak.e)
                    else:
                        eng.oblige("hsl_to_rgb(rgb_to_hsl(c)) %s == c" % ch, weak)
                eng.oblige("parse_color_to_rgb reads the same", eq_rgb(back, back2))
                css = ref.css_hsl_exact(H, S / 100, L / 100)
                for ch, k, e in zip("rgb", rgb, css):
                    eng.oblige("CSS hsl algorithm reads %s back as c" % ch, close(e * 255, k, EPS))
                return s
            rk = "hsl"
        elif kind == "rgb-str":
            def fn():
                rgb = eng.rgb_var("t")
                s = conv.rgbint_to_string(rgb)
                mt = re.fullmatch(r"rgb\((§[a-z]+§), (§[a-z]+§), (§[a-z]+§)\)", s)
                eng.oblige("rgb() skeleton with three numerals", sbool(mt is not None))
                vals = [eng.tokens[g] for g in mt.groups()]
                eng.oblige("numerals are the 8-bit integers", conj(*[sbool(v.is_int) & sbool(v == k) for v, k in zip(vals, rgb)]))
                back = parser.parse_color_to_rgb(s)
                eng.oblige("valid 8-bit", is_valid8(back))
                eng.oblige("parse(rgb string) == c", eq_rgb(back, rgb))
                f = parser.format_color(rgb, "rgb")
                eng.oblige("format_color(c,'rgb') is that string", sbool(f == s))
                t = parser.format_color(rgb, "rgb_tuple")
                eng.oblige("format_color(c,'rgb_tuple') is c", sbool(isinstance(t, tuple)) & eq_rgb(t, rgb))
                h = parser.format_color(rgb, "hsl")
                eng.oblige("format_color(c,'hsl') is rgb_to_hsl(c)", sbool(h == conv.rgb_to_hsl(rgb)))
                return s
            rk = "rgbstr"
        elif kind == "dispatch":
            # format detection on spelling templates with symbolic numerals, and the hex-default dispatch
            sentinel = "#§hex§"
            conv.rgb_to_hex = lambda rgb: sentinel
            cases = [("rgb({a}, {b}, {c})", "rgb"), ("RGB({a},{b},{c})", "rgb"), (" rgb({a}, {b}, {c}) ", "rgb"),
                     ("rgba({a}, {b}, {c}, {d})", "rgba"), ("hsl({a}, {b}%, {c}%)", "hsl"), ("HSL({a},{b}%,{c}%)", "hsl"),
                     ("hsla({a}, {b}%, {c}%, {d})", "hsla"), ("#abc", "hex"), ("#AABBCC", "hex"), ("abc", "hex"), ("aabbcc", "hex"),
                     ("red", "named"), ("RebeccaPurple", "named"), ("{a}, {b}, {c}", "rgb")]

            def fn():
                a, b, c = (eng.int_var(n, 0, 255) for n in "abc")
                d = eng.real_var("d", 0, 1)
                rgb = eng.rgb_var("t")
                for tpl, want in cases:
                    s = tpl.format(a=a, b=b, c=c, d=d)
                    eng.oblige("detect_color_format(%s)" % tpl, sbool(parser.detect_color_format(s) == want))
                eng.oblige("detect tuple", sbool(parser.detect_color_format((a, b, c)) == "rgb_tuple"))
                eng.oblige("detect list", sbool(parser.detect_color_format([a, b, c]) == "rgb_tuple"))
                eng.oblige("detect rgba tuple", sbool(parser.detect_color_format((a, b, c, d)) == "rgba_tuple"))
                for fmt in ("hex", "named", "rgba", "hsla", "rgba_tuple", "unknown"):
                    eng.oblige("format_color(c,%r) is hex" % fmt, sbool(parser.format_color(rgb, fmt) == sentinel))
                return None
            rk = "dispatch"
        else:
            raise ValueError(kind)

    def on_path(pr):
        if pr.outcome == "exc":
            pr.obligations = [("no exception (%s: %s)" % (type(pr.exc).__name__, str(pr.exc)[:100]), z3.BoolVal(False),
                               {"fp": kind == "hsl-fp"})]
        runner.discharge(ID, job, pr, out, rk, ext_timeout_s=300)

    eng.explore(fn, on_path)
    out.d["stats"] = dict(eng.stats)
    return out.d


# ----------------------------------------------------------------- replays

def _rgb(inp):
    return (int(inp["tr"]), int(inp["tg"]), int(inp["tb"]))


def replay_hsl(inp):
    from cm_colors.core.conversions import rgb_to_hsl, hsl_to_rgb
    from cm_colors.core.color_parser import parse_color_to_rgb
    c = _rgb(inp)
    s = rgb_to_hsl(c)
    detail = "rgb_to_hsl(%r) = %r" % (c, s)
    if not re.fullmatch(r"hsl\(\d+(\.\d+)?, \d+(\.\d+)?%, \d+(\.\d+)?%\)", s):
        return True, detail + " : not plain-decimal hsl() syntax"
    try:
        back = hsl_to_rgb(s)
        back2 = parse_color_to_rgb(s)
    except Exception as e:
        return True, detail + " ; reading it back raised %r" % (e,)
    detail += " ; hsl_to_rgb -> %r, parse_color_to_rgb -> %r" % (back, back2)
    bad = back != c or back2 != c
    h, sp, lp = [float(x) for x in re.findall(r"[\d.]+", s)]
    if not (0 <= h <= 360 and 0 <= sp <= 100 and 0 <= lp <= 100):
        bad = True
        detail += " ; component outside the CSS range"
    css = tuple(255 * x for x in ref.css_hsl_exact(h, min(sp, 100) / 100, min(lp, 100) / 100))
    if any(abs(e - k) > 1e-6 for e, k in zip(css, c)):
        bad = True
        detail += " ; CSS algorithm gives %r" % (css,)
    return bad, detail


def replay_rgbstr(inp):
    from cm_colors.core.conversions import rgbint_to_string
    from cm_colors.core.color_parser import parse_color_to_rgb, format_color
    c = _rgb(inp)
    s = rgbint_to_string(c)
    bad = s != "rgb(%d, %d, %d)" % c or parse_color_to_rgb(s) != c or format_color(c, "rgb") != s or format_color(c, "rgb_tuple") != c
    return bad, "rgbint_to_string(%r) = %r -> %r" % (c, s, parse_color_to_rgb(s))


def replay_dispatch(inp):
    from cm_colors.core.color_parser import detect_color_format, format_color
    from cm_colors.core.conversions import rgb_to_hex
    a, b, c = int(inp["a"]), int(inp["b"]), int(inp["c"])
    d = float(dec(inp.get("d", 0)))
    rgb = _rgb(inp)
    bad = []
    cases = [("rgb({a}, {b}, {c})", "rgb"), ("RGB({a},{b},{c})", "rgb"), (" rgb({a}, {b}, {c}) ", "rgb"),
             ("rgba({a}, {b}, {c}, {d})", "rgba"), ("hsl({a}, {b}%, {c}%)", "hsl"), ("HSL({a},{b}%,{c}%)", "hsl"),
             ("hsla({a}, {b}%, {c}%, {d})", "hsla"), ("#abc", "hex"), ("#AABBCC", "hex"), ("abc", "hex"), ("aabbcc", "hex"),
             ("red", "named"), ("RebeccaPurple", "named"), ("{a}, {b}, {c}", "rgb")]
    for tpl, want in cases:
        s = tpl.format(a=a, b=b, c=c, d=d)
        if detect_color_format(s) != want:
            bad.append((s, detect_color_format(s), want))
    for v, want in (((a, b, c), "rgb_tuple"), ([a, b, c], "rgb_tuple"), ((a, b, c, d), "rgba_tuple")):
        if detect_color_format(v) != want:
            bad.append((v, detect_color_format(v), want))
    for fmt in ("hex", "named", "rgba", "hsla", "rgba_tuple", "unknown"):
        if format_color(rgb, fmt) != rgb_to_hex(rgb):
            bad.append((fmt, format_color(rgb, fmt)))
    return bool(bad), "mismatches: %r" % (bad,)


def replay_api(inp):
    from . import c01
    return c01.replay_api(inp, props=("C06",))


def _ladder_api(job):
    from . import c01
    return c01.ladder_api(job)


REPLAYS = {"hsl": replay_hsl, "rgbstr": replay_rgbstr, "dispatch": replay_dispatch, "api": replay_api}
LADDER = {"api": _ladder_api}


def main(tier, seed):
    rc = runner.main(ID, __name__, jobs(tier), tier, seed, META)
    if rc == 1:
        return rc
    import os
    from .. import e2
    harness = os.path.join(os.path.dirname(os.path.dirname(os.path.abspath(__file__))), "e2h", "hex_harness.py")
    rc2 = e2.run_extra(ID, harness, tier, label="hex_clause_crosshair")
    return 1 if rc2 == 1 else (2 if 2 in (rc, rc2) else 0)
