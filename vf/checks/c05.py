"""C05 -- luminance, contrast ratio and readability labels are exactly WCAG 2."""
from fractions import Fraction

import z3

from .. import ref, repo, runner, symx
from ..symx import SBool, SNum, SymRGB, sbool

ID = "C05"
EPS = Fraction(1, 10 ** 9)

META = dict(
    explanation=(
        "symx executes the real srgb_to_linear / calculate_relative_luminance / calculate_contrast_ratio / "
        "get_contrast_level / get_wcag_level / ColorPair.is_readable on six symbolic 8-bit channels (z3 Int in 0..255), "
        "a free real ratio and a symbolic large flag; on every feasible path the result term is compared by z3 with an "
        "independently written WCAG 2 reference executed under the same engine (obligation negated, unsat = holds for "
        "ALL 2^24 colours / 2^48 pairs / all real ratios). pow(x,2.4) is an uninterpreted function with 256 exact "
        "rational enclosure facts per channel derived from the argument term the code actually passes."),
    functions=["conversions.srgb_to_linear", "contrast.calculate_relative_luminance", "contrast.calculate_contrast_ratio",
               "contrast.get_contrast_level", "contrast.get_wcag_level", "colors.ColorPair.is_readable",
               "colors.Color._parse (tuple path)", "color_parser.parse_color_to_rgb (3-tuple path)"],
    bounds=["channels: all integers 0..255 (complete domain)", "ratio: every real (hence every double) in [0, 25]",
            "real-arithmetic model of doubles, guard band 1e-9 on value comparisons and label thresholds"],
    outside=["double rounding below 1e-9 (labels of pairs whose exact ratio lies within 1e-9 of a threshold)",
             "bulk status strings (decided in C12)"],
    trusted=["z3 5.1.0 / z3 4.8.12 / cvc5 1.0.3", "exact Fraction enclosures of x**(12/5)", "vf/ref.py WCAG reference",
             "CPython float semantics"],
    assumptions=["doubles are modelled as the rationals they denote; |double - real| <= 1e-9 on every compared quantity"],
)


def _mods():
    conv, contrast, parser, colors = repo.load(
        "cm_colors.core.conversions", "cm_colors.core.contrast", "cm_colors.core.color_parser", "cm_colors.core.colors")
    for m in (conv, contrast, parser, colors):
        symx.inject(m)
    return conv, contrast, parser, colors


def close(a, b, eps=EPS):
    d = a - b
    return sbool(d <= eps) & sbool(d >= -eps)


def jobs(tier):
    js = [dict(kind="lum"), dict(kind="ratio-eq"), dict(kind="level")]
    for i in range(8):
        js.append(dict(kind="ratio", tcase=i))
    for large in (False, True):
        for i in range(8):
            js.append(dict(kind="label", large=large, tcase=i))
    # the same pair asked first at the other text size, then at this one, in one process (a label must not remember an earlier query)
    for large in (False, True):
        for i in range(8):
            js.append(dict(kind="label", large=large, tcase=i, first=(not large)))
    return js


def _case_assume(eng, rgb, case):
    """split the text colour's 8 linearisation branches over jobs (k<=10 / k>=11 per channel)"""
    for j, ch in enumerate(rgb):
        if (case >> j) & 1:
            eng.assume(ch >= 11)
        else:
            eng.assume(ch <= 10)


def run_job(job):
    conv, contrast, parser, colors = _mods()
    eng = symx.Engine()
    out = runner.JobOut(job)
    kind = job["kind"]

    if kind == "lum":
        def fn():
            t = eng.rgb_var("t")
            L = contrast.calculate_relative_luminance(t)
            Lr = ref.wcag_luminance(t)
            eng.oblige("luminance==WCAG", close(L, Lr))
            eng.oblige("luminance in [0,1]", sbool(L >= 0) & sbool(L <= 1 + EPS))
            # conversions.rgb_to_linear is the 8-bit entry point of the same transfer function
            eng.oblige("rgb_to_linear==WCAG", close(conv.rgb_to_linear(t[0]), ref.wcag_lin(t[0] / 255.0)))
            return L
        rk = "lum"
    elif kind == "ratio":
        def fn():
            t = eng.rgb_var("t")
            b = eng.rgb_var("b")
            _case_assume(eng, t, job["tcase"])
            r = contrast.calculate_contrast_ratio(t, b)
            r2 = contrast.calculate_contrast_ratio(b, t)
            n, d = ref.wcag_ratio_parts(t, b)
            # property-level form: r == n/d  <=>  r*d == n (d >= 0.05); bilinear.  Sufficient linear form
            # (tried first): the engine's (numerator, denominator) of the one division the code performs
            # equal the reference's parts.
            weak = close(r * d, n, EPS * Fraction(1, 20))
            weak_sym = close(r * d, r2 * d, EPS * Fraction(1, 20))
            if r.frac and r2.frac:
                strong = close(SNum(r.frac[0]), n, EPS * Fraction(1, 40)) & close(SNum(r.frac[1]), d, EPS * Fraction(1, 40))
                eng.oblige("ratio==WCAG", strong, fallback=weak.e)
                ssym = close(SNum(r.frac[0]), SNum(r2.frac[0]), Fraction(0)) & close(SNum(r.frac[1]), SNum(r2.frac[1]), Fraction(0))
                eng.oblige("ratio symmetric", ssym, fallback=weak_sym.e)
            else:
                eng.oblige("ratio==WCAG", weak)
                eng.oblige("ratio symmetric", weak_sym)
            eng.oblige("ratio in [1,21]", sbool(r >= 1) & sbool(r <= 21 + EPS))
            tb = z3.And(*[c.t == 0 for c in t] + [c.t == 255 for c in b])
            bt = z3.And(*[c.t == 255 for c in t] + [c.t == 0 for c in b])
            eng.oblige("ratio==21 only black/white", SBool(z3.Implies((r >= 21 - EPS).e, z3.Or(tb, bt))))
            eng.oblige("black/white gives 21", SBool(z3.Implies(z3.Or(tb, bt), close(r, 21).e)))
            Lt = ref.wcag_luminance(t)
            Lb = ref.wcag_luminance(b)
            eng.oblige("equal luminance gives 1", SBool(z3.Implies(close(Lt, Lb, Fraction(0)).e, close(r, 1, Fraction(0)).e)))
            return r
        rk = "ratio"
    elif kind == "ratio-eq":
        def fn():
            t = eng.rgb_var("t")
            r = contrast.calculate_contrast_ratio(t, SymRGB(list(t)))
            eng.oblige("equal colours give 1", close(r, 1, Fraction(0)))
            return r
        rk = "ratio-eq"
    elif kind == "level":
        def fn():
            ratio = eng.real_var("ratio", 0, 25, dyadic=44)
            large = eng.bool_var("large")
            lvl = contrast.get_contrast_level(ratio, large)
            want = ref.wcag_label(ratio, large)
            eng.oblige("level==WCAG mapping", lvl == want)
            return lvl
        rk = "level"
    elif kind == "label":
        large = job["large"]
        aa, aaa = ref.wcag_thresholds(large)

        def fn():
            t = eng.rgb_var("t")
            b = eng.rgb_var("b")
            _case_assume(eng, t, job["tcase"])
            if "first" in job:
                contrast.get_wcag_level(t, b, job["first"])
                colors.ColorPair(t, b, job["first"]).is_readable
            lvl = contrast.get_wcag_level(t, b, large)
            pair = colors.ColorPair(t, b, large)
            lab = pair.is_readable
            n, d = ref.wcag_ratio_parts(t, b)
            for nm, thr, isin in (("AA", aa, lvl in ("AA", "AAA")), ("AAA", aaa, lvl == "AAA")):
                above = (n >= (thr + EPS) * d)
                below = (n < (thr - EPS) * d)
                eng.oblige("get_wcag_level %s threshold" % nm, SBool(z3.Implies(above.e, z3.BoolVal(isin))) &
                           SBool(z3.Implies(below.e, z3.BoolVal(not isin))))
            want = {"AAA": "Very Readable", "AA": "Readable", "FAIL": "Not Readable"}[lvl]
            eng.oblige("is_readable label matches level", lab == want)
            eng.oblige("pair parsed to itself", sbool(pair.text.rgb == t) & sbool(pair.bg.rgb == b) if isinstance(pair.text.rgb, SymRGB)
                       else SBool(z3.And(*[(x == y).e for x, y in zip(pair.text.rgb, t)] + [(x == y).e for x, y in zip(pair.bg.rgb, b)])))
            return lab
        rk = "label"
    else:
        raise ValueError(kind)

    def on_path(pr):
        if pr.outcome == "exc":
            eng.obligations = []
            pr.obligations = [("no exception (%s: %s)" % (type(pr.exc).__name__, str(pr.exc)[:80]), z3.BoolVal(False), {})]
        runner.discharge(ID, job, pr, out, rk)

    eng.explore(fn, on_path)
    out.d["stats"] = dict(eng.stats)
    return out.d


# ----------------------------------------------------------------- replays (concrete, real code, no injection)

def _rgb(inp, p):
    return (int(inp[p + "r"]), int(inp[p + "g"]), int(inp[p + "b"]))


def replay_lum(inp):
    from cm_colors.core.contrast import calculate_relative_luminance
    from cm_colors.core.conversions import rgb_to_linear
    t = _rgb(inp, "t")
    got = calculate_relative_luminance(t)
    want = ref.wcag_luminance(t)
    bad = abs(got - want) > 1e-9 or not (0 <= got <= 1) or abs(rgb_to_linear(t[0]) - ref.wcag_lin(t[0] / 255.0)) > 1e-9
    return bad, "luminance%r = %r, WCAG reference %r" % (t, got, want)


def replay_ratio(inp):
    from cm_colors.core.contrast import calculate_contrast_ratio
    t = _rgb(inp, "t")
    b = _rgb(inp, "b") if "br" in inp else t
    got = calculate_contrast_ratio(t, b)
    got2 = calculate_contrast_ratio(b, t)
    want = ref.wcag_ratio(t, b)
    bw = {t, b} == {(0, 0, 0), (255, 255, 255)}
    bad = (abs(got - want) > 1e-9 or got != got2 or not (1 <= got <= 21) or (got >= 21 - 1e-9 and not bw)
           or (bw and abs(got - 21) > 1e-9) or (t == b and got != 1.0)
           or (ref.wcag_luminance(t) == ref.wcag_luminance(b) and got != 1.0))
    return bad, "ratio(%r,%r) = %r / swapped %r, WCAG reference %r" % (t, b, got, got2, want)


def replay_level(inp):
    from cm_colors.core.contrast import get_contrast_level
    ratio = float(inp["ratio"])
    large = bool(inp["large"])
    got = get_contrast_level(ratio, large)
    want = ref.wcag_label(ratio, large)
    return got != want, "get_contrast_level(%r, %r) = %r, WCAG mapping %r" % (ratio, large, got, want)


def replay_label(inp):
    from cm_colors.core.contrast import get_wcag_level
    from cm_colors.core.colors import ColorPair
    t, b = _rgb(inp, "t"), _rgb(inp, "b")
    large = bool(inp["_job"]["large"])
    want = ref.wcag_label(ref.wcag_ratio(t, b), large)
    if "first" in inp["_job"]:
        get_wcag_level(t, b, bool(inp["_job"]["first"]))
        ColorPair(t, b, bool(inp["_job"]["first"])).is_readable
    got = get_wcag_level(t, b, large)
    pair = ColorPair(t, b, large)
    lab = pair.is_readable
    wl = {"AAA": "Very Readable", "AA": "Readable", "FAIL": "Not Readable"}[want]
    bad = got != want or lab != wl or pair.text.rgb != t or pair.bg.rgb != b
    return bad, "get_wcag_level(%r,%r,%r)=%r is_readable=%r; WCAG reference %r/%r" % (t, b, large, got, lab, want, wl)


REPLAYS = {"lum": replay_lum, "ratio": replay_ratio, "ratio-eq": replay_ratio, "level": replay_level, "label": replay_label}


def main(tier, seed):
    return runner.main(ID, __name__, jobs(tier), tier, seed, META)
