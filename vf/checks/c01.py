"""C01 -- make_readable's success flag is exactly the WCAG verdict on the returned colour.

The same harness also yields the obligations of C02 clause A and C06.1 (format mapping); the check
modules c02/c06 reuse run_api_job with their own obligation filter.
"""
from fractions import Fraction

import z3

from .. import api as apimod
from .. import ref, runner, symx
from ..harness import EPS, close, conj, disj, eq_rgb, implies, is_valid8
from ..symx import SBool, SNum, SymRGB, lift, sbool

ID = "C01"

META = dict(
    explanation=(
        "The real ColorPair(...).make_readable -> check_and_fix_contrast -> _strategy_strict/_recursive/_relaxed -> result "
        "re-formatting code is executed by symx for each input spelling template (numerals symbolic), every mode x large_text x "
        "very_readable, with the background as three symbolic 8-bit channels.  generate_accessible_color is replaced by the stub "
        "'returns its input or ANY valid 8-bit colour' (fresh symbolic colour per call), so the flag is shown right for whatever "
        "the search returns.  The contrast ratio code runs for real (only srgb_to_linear is an uninterpreted function).  Per path "
        "z3 proves  success <=> WCAG ratio(reference)(colour read back from the returned value, background) >= required minimum "
        "{4.5, 3.0, 7.0, 4.5}."),
    functions=["colors.ColorPair.__init__", "colors.ColorPair.make_readable", "colors.Color._parse", "optimisation.check_and_fix_contrast",
               "optimisation._strategy_strict", "optimisation._strategy_recursive", "optimisation._strategy_relaxed",
               "contrast.calculate_contrast_ratio", "contrast.calculate_relative_luminance", "color_parser.parse_color_to_rgb",
               "color_parser.detect_color_format", "color_parser.format_color", "conversions.rgbint_to_string", "conversions.rgb_to_hsl"],
    stubs=["generate_accessible_color -> its input or any valid 8-bit colour (fresh per call); over-approximates the real search",
           "srgb_to_linear -> UF LIN with values in [0,1] (C05.1)", "optimisation.get_wcag_level -> the real function, evaluated lazily (only if its result is used)",
           "rgb_to_hex -> opaque token denoting its argument (hex digits cannot be symbolic; lemma C06.4, bounded)",
           "mode 2: _strategy_recursive -> stub with the contract 'flag == ratio >= min' that the mode-1 jobs prove",
           "rgb_to_hsl -> opaque token denoting its argument (format->parse identity proved on the real formatter in C06.2)",
           "hsl_to_rgb / hsla_to_rgb / rgba_to_rgb as called by the parser -> fresh valid 8-bit colour (what they return is C07's / C13's subject)",
           "mode 2 only: optimisation.Color (re-validation of already parsed tuples) -> pass-through"],
    trusted=["z3", "vf/ref.py WCAG thresholds and ratio", "lemmas discharged by C05 and C06"],
    assumptions=["real model of doubles with guard band 1e-9 at the thresholds"],
)


def settings():
    for mode in (0, 1, 2):
        for large in (False, True):
            for very in (False, True):
                yield mode, large, very


def jobs(tier, templates=None):
    js = []
    for tpl in (templates or apimod.TEMPLATES):
        for mode, large, very in settings():
            if mode == 2 and tier == "quick" and tpl not in ("tuple", "rgb"):
                continue   # quick tier: relaxed mode on two spellings (the spelling only selects the formatter); thorough: all
            j = dict(kind="api", tpl=tpl, mode=mode, large=large, very=very)
            if mode == 2 and tier == "quick":
                j["caps"] = {"15": 3}     # relaxed mode's extended loop: 3 of its 15 iterations in the quick tier
                js.append(j)
            elif mode == 2:
                if tpl not in ("tuple", "rgb", "hsl", "hex6"):
                    continue   # thorough: relaxed mode in full (15 iterations) on four spellings, 4 shards each
                for i in range(4):
                    js.append(dict(j, shard=[i, 4, 40]))
            else:
                js.append(j)
    return js


def meta_for(tier):
    m = dict(META)
    m["bounds"] = ["background: all 8-bit colours; text: all values of the template's numerals (8-bit ints, real hue/percent/alpha); hex / named text: "
                   "three concrete representatives (%s) against all backgrounds" % ", ".join(apimod.HEX_CONCRETE.values()),
                   "all 12 settings (mode x large_text x very_readable), each its own job",
                   "mode 1: all 10 iterations; mode 2: %s" % ("extended loop truncated to 3 of 15 iterations (quick tier), two spellings" if tier == "quick"
                                                              else "all 15 iterations, four spellings (tuple, rgb(), hsl(), hex)")]
    m["outside"] = ["what the numeric search actually returns (C03, n/a)", "hex digit formatting (bounded clause of C06)"]
    return m


def judged(api, value, tpl):
    """(J, ok_formula): the colour a CSS consumer reads back from the returned value"""
    eng = api.eng
    kind = apimod.expected_kind(tpl)
    last = api.fmt_calls[-1] if api.fmt_calls else None
    if kind == "tuple":
        if isinstance(value, tuple) and len(value) == 3:
            return tuple(value), sbool(type(value) in (tuple, SymRGB)) & is_valid8(tuple(value))
        return None, sbool(False)
    if not isinstance(value, str):
        return None, sbool(False)
    if kind == "rgb":
        import re
        m = re.fullmatch(r"rgb\((§[a-z]+§|\d+), (§[a-z]+§|\d+), (§[a-z]+§|\d+)\)", value)
        if not m:
            return None, sbool(False)
        vals = [eng.tokens[g] if g in eng.tokens else lift(int(g)) for g in m.groups()]
        return tuple(vals), is_valid8(tuple(vals))
    rgb = api.hex_tokens.get(value)
    if rgb is None or not value.startswith("hsl(" if kind == "hsl" else "#"):
        return None, sbool(False)
    return tuple(rgb), is_valid8(tuple(rgb))


def run_api_job(job, which, ID):
    tpl, mode, large, very = job["tpl"], job["mode"], job["large"], job["very"]
    config = job.get("config", "real")
    caps = {int(k): v for k, v in (job.get("caps") or {}).items()}
    api = apimod.Api(config=config, g_kwargs=job.get("g"), rec_kwargs=job.get("rec"), caps=caps or None)
    api.use_rec_stub(mode == 2)
    eng, m = api.eng, api.m
    out = runner.JobOut(job)
    minreq = ref.wcag_min(large, very)

    def fn():
        api.st.calls.clear()
        api.fmt_calls.clear()
        api.hex_tokens.clear()
        if hasattr(api, "_memo"):
            api._memo.clear()
        text, desc = api.text_input(tpl)
        bg = eng.rgb_var("b")
        pair = m.colors.ColorPair(text, bg, large)
        if not pair.is_valid:
            eng.oblige("pair is parseable", sbool(False))
            return None
        T, B = pair.text.rgb, pair.bg.rgb
        res = pair.make_readable(mode=mode, very_readable=very)
        value, success = res
        J, okJ = judged(api, value, tpl)
        succ = sbool(success)
        if "C06" in which:
            eng.oblige("C06.1 result has the documented format of the input (%s -> %s) and denotes a valid colour" % (tpl, apimod.expected_kind(tpl)), okJ)
        if J is None:
            if "C01" in which:
                eng.oblige("C01 returned value can be read back", sbool(False))
            return res
        if "C01" in which:
            eng.oblige("C01 success => contrast(returned, bg) >= %s" % minreq, implies(succ, api.ratio_ge(J, B, minreq, -EPS)))
            eng.oblige("C01 not success => contrast(returned, bg) < %s" % minreq, implies(~succ, api.ratio_lt(J, B, minreq, -EPS)))
        if "C02" in which:
            passing = api.ratio_ge(T, B, minreq, EPS)
            eng.oblige("C02.A already passing => success and the original colour", implies(passing, conj(succ, eq_rgb(J, T))))
        if "C02B" in which:
            eng.oblige("C02.B contrast(returned, bg) >= contrast(original, bg)", api.cf(J, B) >= api.cf(T, B))
        return res

    def on_path(pr):
        if pr.outcome == "exc":
            pr.obligations = [("no exception (%s: %s)" % (type(pr.exc).__name__, str(pr.exc)[:100]), z3.BoolVal(False), {})]
        runner.discharge(ID, job, pr, out, "api")

    eng.explore(fn, on_path, shard=tuple(job["shard"]) if job.get("shard") else None)
    out.d["stats"] = dict(eng.stats)
    return out.d


def run_job(job):
    return run_api_job(job, {"C01"}, ID)


# ----------------------------------------------------------------- replay on the real code

def _bg(inp):
    return (int(inp.get("br", 255)), int(inp.get("bg", 255)), int(inp.get("bb", 255)))


def replay_api(inp, props=("C01",)):
    from cm_colors.core.colors import ColorPair
    job = inp["_job"]
    text = apimod.concrete_text(job["tpl"], inp)
    bg = _bg(inp)
    large, very, mode = job["large"], job["very"], job["mode"]
    pair = ColorPair(text, bg, large)
    if not pair.is_valid:
        return False, "pair invalid: %r" % (pair.errors,)
    T = pair.text.rgb
    try:
        value, success = pair.make_readable(mode=mode, very_readable=very)
    except Exception as e:
        return True, "ColorPair(%r,%r,%r).make_readable(mode=%r, very_readable=%r) raised %r" % (text, bg, large, mode, very, e)
    J = apimod.css_readback(value)
    minreq = ref.wcag_min(large, very)
    detail = "ColorPair(%r,%r,large_text=%r).make_readable(mode=%r, very_readable=%r) = (%r, %r); text parsed as %r" % (
        text, bg, large, mode, very, value, success, T)
    bad = []
    kind = apimod.expected_kind(job["tpl"])
    fmt_ok = ((kind == "tuple" and isinstance(value, tuple)) or (kind == "rgb" and isinstance(value, str) and value.startswith("rgb("))
              or (kind == "hsl" and isinstance(value, str) and value.startswith("hsl(")) or (kind == "hex" and isinstance(value, str) and value.startswith("#")))
    if "C06" in props and (not fmt_ok or J is None):
        bad.append("C06.1: result format/readability (expected %s, read back %r)" % (kind, J))
    if J is not None:
        r = ref.wcag_ratio(J, bg)
        r0 = ref.wcag_ratio(T, bg)
        detail += "; read back as %r: WCAG ratio %.6f (original %.6f), required %s" % (J, r, r0, minreq)
        if "C01" in props and abs(r - minreq) > 1e-9 and bool(success) != (r >= minreq):
            bad.append("C01: flag %r but ratio %.6f vs %s" % (success, r, minreq))
        if "C02" in props and r0 >= minreq + 1e-9 and (not success or J != T):
            bad.append("C02.A: already passing but got %r/%r" % (value, success))
        if "C02" in props and r < r0 - 1e-9:
            bad.append("C02.B: contrast dropped %.6f -> %.6f" % (r0, r))
    elif "C01" in props:
        bad.append("C01: returned value cannot be read back as a colour")
    return bool(bad), detail + (" :: " + "; ".join(bad) if bad else "")


def ladder_api(job):
    from ..ladder import pairs
    import colorsys
    for t, b in pairs():
        d = dict(tr=t[0], tg=t[1], tb=t[2], br=b[0], bg=b[1], bb=b[2], ta=Fraction(1, 2))
        h, l, s = colorsys.rgb_to_hls(t[0] / 255, t[1] / 255, t[2] / 255)
        d.update(th=Fraction(round(h * 360)), ts=Fraction(round(s * 100)), tl=Fraction(round(l * 100)))
        yield d


REPLAYS = {"api": replay_api}
LADDER = {"api": ladder_api}


def main(tier, seed):
    return runner.main(ID, __name__, jobs(tier), tier, seed, meta_for(tier))
