"""Reference models, written from the published definitions, independent of the repository.

Every function runs both concretely (python floats: replay oracle) and under symx (proxy
values: the solver compares terms).  Nothing here imports cm_colors.
"""
from fractions import Fraction

from . import symx
from .symx import SymMath, ite, smax, smin

M = SymMath()

# ---------------------------------------------------------------- WCAG 2

def wcag_lin(c):
    """sRGB channel in [0,1] -> linear.  WCAG 2.x text: threshold 0.03928 (sRGB: 0.04045); both
    give the same value on every 8-bit channel (10/255 < 0.03928 < 0.04045 < 11/255)."""
    return ite(c <= 0.03928, c / 12.92, ((c + 0.055) / 1.055) ** 2.4)


def wcag_luminance(rgb):
    r, g, b = [wcag_lin(x / 255.0) for x in rgb]
    return 0.2126 * r + 0.7152 * g + 0.0722 * b


def wcag_ratio_parts(t, b):
    lt, lb = wcag_luminance(t), wcag_luminance(b)
    hi = smax(lt, lb)
    lo = smin(lt, lb)
    return hi + 0.05, lo + 0.05


def wcag_ratio(t, b):
    n, d = wcag_ratio_parts(t, b)
    return n / d


def wcag_min(large, very):
    """required minimum: 4.5 normal, 3.0 large, 7.0 very-readable normal, 4.5 very-readable large"""
    if very:
        return 4.5 if large else 7.0
    return 3.0 if large else 4.5


def wcag_thresholds(large):
    """(AA threshold, AAA threshold)"""
    return (3.0, 4.5) if large else (4.5, 7.0)


def wcag_label(ratio, large):
    aa, aaa = wcag_thresholds(large)
    if ratio >= aaa:
        return "AAA"
    if ratio >= aa:
        return "AA"
    return "FAIL"
