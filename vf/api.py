"""API-level harness shared by C01, C02, C06.1, C13, C16: the real ColorPair / make_readable /
check_and_fix_contrast / _strategy_* code executed under symx with the numeric search stubbed.
"""
from fractions import Fraction

import z3

from . import ref, stubs, symx
from .harness import EPS, close, conj, disj, eq_rgb, implies, is_valid8, load_core
from .symx import SBool, SNum, SymRGB, lift, sbool

TEMPLATES = ["tuple", "list", "rgb", "hsl", "rgba", "rgba_tuple", "hsla", "hex6", "hex3", "named"]
HEX_CONCRETE = {"hex6": "#767676", "hex3": "#abc", "named": "slategray"}


class LazyValue:
    """the result of a pure function call, computed on first use"""

    def __init__(self, fn, a, k):
        self._c = (fn, a, k)
        self._v = None

    def force(self):
        if self._c is not None:
            fn, a, k = self._c
            self._v = fn(*a, **k)
            self._c = None
        return self._v

    def __eq__(self, o):
        return self.force() == o

    def __ne__(self, o):
        return self.force() != o

    def __hash__(self):
        return hash(self.force())

    def __str__(self):
        return str(self.force())

    def __repr__(self):
        return repr(self.force())

    def __format__(self, spec):
        return format(self.force(), spec)

    def __bool__(self):
        return bool(self.force())

    def __contains__(self, x):
        return x in self.force()

    def __getattr__(self, n):
        return getattr(self.force(), n)


class Api:
    """loads the modules, installs the stubs for one configuration"""

    def __init__(self, config="real", caps=None, g_kwargs=None, rec_kwargs=None, real_rec=False):
        self.m = load_core(caps=caps)
        self.eng = symx.Engine()
        self.st = stubs.Stubs(self.eng)
        m, st = self.m, self.st
        self.config = config
        self.fmt_calls = []
        self.hex_tokens = {}
        self.real_ratio = m.contrast.calculate_contrast_ratio
        if config == "real":
            # real ratio code; only the sRGB transfer function is a UF (no forks; contract from C05.1)
            m.contrast.srgb_to_linear = st.lin
            real_ratio = self.real_ratio
            self._memo = {}

            def memo_ratio(a, b):
                # the real function, evaluated once per distinct pair of argument terms on a path (it is a pure
                # function of its arguments; the encoding of a repeated call would be the identical term)
                key = tuple(x.t.get_id() if isinstance(x, SNum) else ("c", x) for x in tuple(a) + tuple(b))
                hit = self._memo.get(key)
                if hit is None:
                    hit = (real_ratio(a, b), a, b)
                    self._memo[key] = hit
                return hit[0]

            for mod in (m.optimisation, m.colors, m.cm_colors):
                if hasattr(mod, "calculate_contrast_ratio"):
                    mod.calculate_contrast_ratio = memo_ratio
            cf = memo_ratio
        else:
            # logic-level: the ratio itself is a UF (contract from C05.2), so comparing two ratios stays linear
            for mod in (m.optimisation, m.colors, m.cm_colors):
                if hasattr(mod, "calculate_contrast_ratio"):
                    mod.calculate_contrast_ratio = st.contrast
            m.contrast.calculate_contrast_ratio = st.contrast
            cf = st.contrast
        self.cf = cf
        self.real_G = m.optimisation.generate_accessible_color
        self.real_rec = m.optimisation._strategy_recursive
        gk = dict(g_kwargs or {})
        if gk.pop("deterministic", False):
            m.optimisation.generate_accessible_color = self.g_det
        else:
            if gk.get("monotone"):
                gk["contrast_fn"] = cf
            m.optimisation.generate_accessible_color = st.g_stub(**gk)
        if not real_rec:
            rk = dict(rec_kwargs or {})
            self._rec_stub = st.rec_stub(contrast_fn=cf, **rk)
        else:
            self._rec_stub = None
        m.optimisation.calculate_delta_e_2000 = st.delta_e
        # the WCAG level of the tuned colour is computed and (in the pinned code) discarded by check_and_fix_contrast:
        # evaluate the REAL function lazily -- only if the value is ever looked at (it is a pure function, so deferring
        # the call does not change its result) -- so that an unused level costs no forks and a used one is exact
        real_level = m.optimisation.get_wcag_level
        m.optimisation.get_wcag_level = lambda *a, **k: LazyValue(real_level, a, k)
        # hex output cannot carry symbolic digits: the formatter is a token whose meaning is the colour (lemma C06.4)
        m.conversions.rgb_to_hex = self.hex_stub
        # hsl() output: the emitted string reads back as its argument (C06.2, proved there on the real formatter)
        m.conversions.rgb_to_hsl = self.hsl_out_stub
        # hsl()/hsla() input: C07 proves what the parser returns; here it is 'some valid 8-bit colour'
        m.color_parser.hsl_to_rgb = self.hsl_in_stub
        m.color_parser.hsla_to_rgb = self.hsl_in_stub
        # translucent input: the compositing arithmetic (bilinear in alpha) is C07's / C13's subject; here the parsed
        # text colour is 'some valid 8-bit colour'
        m.color_parser.rgba_to_rgb = self.hsl_in_stub
        # concrete colours (hex / named text) are lifted to symbolic constants so that k/255 is the same exact
        # rational everywhere (a python float 170/255.0 and the real-model term 170/255 are different UF arguments)
        real_hex_to_rgb = m.color_parser.hex_to_rgb

        def lifted_hex_to_rgb(*a, **k):
            v = real_hex_to_rgb(*a, **k)
            return SymRGB([SNum(z3.IntVal(int(x))) for x in v]) if isinstance(v, tuple) else v

        m.color_parser.hex_to_rgb = lifted_hex_to_rgb
        real_format = m.color_parser.format_color
        calls = self.fmt_calls

        def rec_format(rgb, fmt):
            out = real_format(rgb, fmt)
            calls.append((rgb, fmt, out))
            return out

        m.colors.format_color = rec_format

    def use_rec_stub(self, on):
        self.m.optimisation._strategy_recursive = self._rec_stub if on and self._rec_stub else self.real_rec
        if on:
            self.m.optimisation.Color = self.light_color_class()

    def hsl_out_stub(self, rgb):
        tok = "hsl(§hslout%s§)" % "".join(chr(ord("a") + int(c)) for c in str(len(self.hex_tokens)))
        self.hex_tokens[tok] = rgb
        return tok

    def hsl_in_stub(self, *a, **k):
        return self.eng.fresh_rgb("hslparsed")

    def light_color_class(self):
        """stand-in for optimisation.Color on already-validated tuples (used in the mode-2 jobs only, where the
        double validation inside check_and_fix_contrast would multiply every path by four identical copies)"""
        class LightColor:
            def __init__(self, v, background_context=None):
                self.is_valid = isinstance(v, tuple) and len(v) == 3
                self.rgb = v if self.is_valid else None
                self._rgb = self.rgb
                self.error = None if self.is_valid else "not a tuple"
        return LightColor

    def hex_stub(self, rgb):
        tok = "#§hex%s§" % "".join(chr(ord("a") + int(c)) for c in str(len(self.hex_tokens)))
        self.hex_tokens[tok] = rgb
        return tok

    def g_det(self, text_rgb, bg_rgb, large=False, target_contrast=None, min_contrast=None, delta_e_sequence=None):
        """deterministic G: every output channel is an uninterpreted function of ALL arguments"""
        e = self.eng
        I, R, B = z3.IntSort(), z3.RealSort(), z3.BoolSort()
        seq = list(delta_e_sequence) if delta_e_sequence is not None else [-1.0]
        key = [lift(x).t for x in tuple(text_rgb) + tuple(bg_rgb)]
        key.append(lift(large).t if not isinstance(large, (bool, SBool)) else (large.e if isinstance(large, SBool) else z3.BoolVal(large)))
        reals = [lift(target_contrast if target_contrast is not None else -1).real(), lift(min_contrast if min_contrast is not None else -1).real()]
        sk = hash(tuple(float(x) for x in seq)) % (10 ** 9)
        outs = []
        for ch in "rgb":
            f = z3.Function("Gdet_%s_%d" % (ch, sk), I, I, I, I, I, I, B, R, R, I)
            y = f(*(key + reals))
            e.add_side(z3.And(y >= 0, y <= 255))
            outs.append(SNum(y))
        self.st.calls.append(dict(kind="G", text=text_rgb, bg=bg_rgb, seq=delta_e_sequence, out=None))
        out = SymRGB(outs)
        # the real routine returns its input object when nothing better is found: equality decides, as in the code
        return out

    # ---------------------------------------------------------------------------------------------------
    def text_input(self, template):
        """(value passed to ColorPair, description dict) for a spelling template; numerals symbolic"""
        e = self.eng
        if template in ("tuple", "list"):
            t = e.rgb_var("t")
            return (t if template == "tuple" else list(t)), dict(exact=t)
        if template == "rgb":
            a, b, c = (e.int_var("t" + n, 0, 255) for n in "rgb")
            return "rgb(%s, %s, %s)" % (a, b, c), dict(exact=(a, b, c))
        if template == "hsl":
            h = e.real_var("th", 0, 360)
            s = e.real_var("ts", 0, 100)
            l = e.real_var("tl", 0, 100)
            return "hsl(%s, %s%%, %s%%)" % (h, s, l), dict(hsl=(h, s, l))
        if template == "rgba":
            a, b, c = (e.int_var("t" + n, 0, 255) for n in "rgb")
            al = e.real_var("ta", 0, 1)
            return "rgba(%s, %s, %s, %s)" % (a, b, c, al), dict(exact=(a, b, c), alpha=al)
        if template == "rgba_tuple":
            a, b, c = (e.int_var("t" + n, 0, 255) for n in "rgb")
            al = e.real_var("ta", 0, 1)
            return (a, b, c, al), dict(exact=(a, b, c), alpha=al)
        if template == "hsla":
            h = e.real_var("th", 0, 360)
            s = e.real_var("ts", 0, 100)
            l = e.real_var("tl", 0, 100)
            al = e.real_var("ta", 0, 1)
            return "hsla(%s, %s%%, %s%%, %s)" % (h, s, l, al), dict(hsl=(h, s, l), alpha=al)
        if template in HEX_CONCRETE:
            return HEX_CONCRETE[template], dict(concrete=True)
        raise ValueError(template)

    def ref_ratio_parts(self, a, b):
        """(numerator, denominator) of the WCAG ratio from the reference, sharing only the LIN / CR contract"""
        if self.config == "real":
            def lum(rgb):
                r, g, bl = [self.st.lin(x / 255.0) for x in rgb]   # same float division as the code on concrete channels
                return 0.2126 * r + 0.7152 * g + 0.0722 * bl
            la, lb = lum(a), lum(b)
            return symx.smax(la, lb) + 0.05, symx.smin(la, lb) + 0.05
        return self.st.contrast(a, b), 1

    def ratio_ge(self, a, b, thr, eps=0):
        n, d = self.ref_ratio_parts(a, b)
        return sbool(n >= (Fraction(thr) + eps) * d)

    def ratio_lt(self, a, b, thr, eps=0):
        n, d = self.ref_ratio_parts(a, b)
        return sbool(n < (Fraction(thr) - eps) * d)


def expected_kind(template):
    return {"tuple": "tuple", "list": "tuple", "rgb": "rgb", "hsl": "hsl"}.get(template, "hex")


def concrete_text(template, inp):
    """replay side: build the concrete text value for a template from model values"""
    from .harness import dec
    g = lambda k, d=0: inp.get(k, d)
    if template == "tuple":
        return (int(g("tr")), int(g("tg")), int(g("tb")))
    if template == "list":
        return [int(g("tr")), int(g("tg")), int(g("tb"))]
    if template == "rgb":
        return "rgb(%d, %d, %d)" % (int(g("tr")), int(g("tg")), int(g("tb")))
    if template == "hsl":
        return "hsl(%s, %s%%, %s%%)" % (dec(g("th")), dec(g("ts")), dec(g("tl")))
    if template == "rgba":
        return "rgba(%d, %d, %d, %s)" % (int(g("tr")), int(g("tg")), int(g("tb")), dec(g("ta")))
    if template == "rgba_tuple":
        return (int(g("tr")), int(g("tg")), int(g("tb")), float(dec(g("ta"))))
    if template == "hsla":
        return "hsla(%s, %s%%, %s%%, %s)" % (dec(g("th")), dec(g("ts")), dec(g("tl")), dec(g("ta")))
    return HEX_CONCRETE[template]


def css_readback(value):
    """replay side: how a CSS consumer reads a make_readable result back (independent of the library's parser)"""
    import re
    if isinstance(value, (tuple, list)):
        return tuple(value) if len(value) == 3 and all(isinstance(x, int) and not isinstance(x, bool) and 0 <= x <= 255 for x in value) else None
    if not isinstance(value, str):
        return None
    s = value.strip()
    m = re.fullmatch(r"#([0-9a-fA-F]{6})", s)
    if m:
        h = m.group(1)
        return (int(h[0:2], 16), int(h[2:4], 16), int(h[4:6], 16))
    m = re.fullmatch(r"rgb\(\s*(\d{1,3})\s*,\s*(\d{1,3})\s*,\s*(\d{1,3})\s*\)", s)
    if m:
        v = tuple(int(x) for x in m.groups())
        return v if all(x <= 255 for x in v) else None
    m = re.fullmatch(r"hsl\(\s*(-?\d+(?:\.\d+)?)\s*,\s*(\d+(?:\.\d+)?)%\s*,\s*(\d+(?:\.\d+)?)%\s*\)", s)
    if m:
        h, sp, lp = [float(x) for x in m.groups()]
        if not (sp <= 100 and lp <= 100):
            sp, lp = min(sp, 100.0), min(lp, 100.0)   # CSS clamps
        ex = ref.css_hsl_exact(h, sp / 100, lp / 100)
        return tuple(int(round(255 * x)) for x in ex)
    return None
