"""Linearisation by monomial abstraction.

A polynomial obligation over a few bounded atoms (here: the three cube roots of the LMS responses, each in [0,1],
and the linear-light inputs) is expanded exactly (Fractions) into a sum of monomials; every NON-LINEAR monomial
becomes a fresh real variable whose range is the interval product of its atoms' ranges.  What is left is linear real
arithmetic, which z3 decides at once.  The abstraction only forgets the relations between different monomials, so
'unsat' of the linearised query implies 'unsat' of the original (sound); 'sat' means nothing and the caller falls back
to the non-linear solvers.  Constraints that are not (conjunctions of) polynomial comparisons are dropped (sound).
"""
from __future__ import annotations

from fractions import Fraction

import z3

from .symx import z3_to_frac, rv


class NotPoly(Exception):
    pass


def _atom_key(t):
    return t.get_id()


def to_poly(t, atoms):
    """z3 arithmetic term -> {monomial (sorted tuple of atom ids): Fraction}"""
    if z3.is_rational_value(t) or z3.is_int_value(t):
        f = z3_to_frac(t)
        return {(): f} if f != 0 else {}
    if z3.is_app(t):
        k = t.decl().kind()
        ch = t.children()
        if k == z3.Z3_OP_ADD:
            out = {}
            for c in ch:
                for m, v in to_poly(c, atoms).items():
                    out[m] = out.get(m, 0) + v
            return {m: v for m, v in out.items() if v != 0}
        if k == z3.Z3_OP_SUB:
            out = dict(to_poly(ch[0], atoms))
            for c in ch[1:]:
                for m, v in to_poly(c, atoms).items():
                    out[m] = out.get(m, 0) - v
            return {m: v for m, v in out.items() if v != 0}
        if k == z3.Z3_OP_UMINUS:
            return {m: -v for m, v in to_poly(ch[0], atoms).items()}
        if k == z3.Z3_OP_MUL:
            out = {(): Fraction(1)}
            for c in ch:
                p = to_poly(c, atoms)
                new = {}
                for m1, v1 in out.items():
                    for m2, v2 in p.items():
                        m = tuple(sorted(m1 + m2))
                        if len(m) > 6:
                            raise NotPoly("degree")
                        new[m] = new.get(m, 0) + v1 * v2
                out = {m: v for m, v in new.items() if v != 0}
                if len(out) > 4000:
                    raise NotPoly("size")
            return out
        if k == z3.Z3_OP_DIV:
            den = z3.simplify(ch[1])
            f = z3_to_frac(den) if (z3.is_rational_value(den) or z3.is_int_value(den)) else None
            if f is None or f == 0:
                raise NotPoly("division by a term")
            return {m: v / f for m, v in to_poly(ch[0], atoms).items()}
        if k == z3.Z3_OP_TO_REAL:
            inner = ch[0]
            if z3.is_int_value(inner):
                return to_poly(inner, atoms)
        if k in (z3.Z3_OP_ITE, z3.Z3_OP_POWER, z3.Z3_OP_MOD, z3.Z3_OP_IDIV, z3.Z3_OP_TO_INT):
            raise NotPoly("op %s" % t.decl().name())
    # anything else is an atom (variable, UF application, to_real of a variable)
    atoms[_atom_key(t)] = t
    return {(_atom_key(t),): Fraction(1)}


def _cmp_parts(c):
    """comparison -> (poly of lhs-rhs, op) ; raises NotPoly otherwise"""
    neg = False
    while z3.is_not(c):
        neg = not neg
        c = c.arg(0)
    k = c.decl().kind()
    ops = {z3.Z3_OP_LE: "<=", z3.Z3_OP_LT: "<", z3.Z3_OP_GE: ">=", z3.Z3_OP_GT: ">", z3.Z3_OP_EQ: "=="}
    if k not in ops or not z3.is_arith(c.arg(0)):
        raise NotPoly("not a comparison")
    op = ops[k]
    if neg:
        if op == "==":
            raise NotPoly("disequality")
        op = {"<=": ">", "<": ">=", ">=": "<", ">": "<="}[op]
    return c.arg(0), c.arg(1), op


def linearise(constraints, goal, ranges):
    """-> (list of linear z3 constraints, linear goal, info) or raises NotPoly if the GOAL is not polynomial.
    ranges: list of (z3 term, lo, hi) for atoms (Fractions / ints)."""
    atoms = {}
    mono_vars = {}
    rng = {t.get_id(): (Fraction(lo), Fraction(hi)) for (t, lo, hi) in ranges}
    extra = []

    def lin(poly):
        s = rv(poly.get((), 0))
        for m, v in poly.items():
            if m == ():
                continue
            if len(m) == 1:
                s = s + rv(v) * atoms[m[0]]
                continue
            mv = mono_vars.get(m)
            if mv is None:
                mv = z3.Real("mono!%d" % len(mono_vars))
                mono_vars[m] = mv
                lo, hi = Fraction(1), Fraction(1)
                ok = True
                for a in m:
                    if a not in rng:
                        ok = False
                        break
                    alo, ahi = rng[a]
                    cands = [lo * alo, lo * ahi, hi * alo, hi * ahi]
                    lo, hi = min(cands), max(cands)
                if ok:
                    extra.append(z3.And(mv >= rv(lo), mv <= rv(hi)))
            s = s + rv(v) * mv
        return s

    def conv(c):
        if z3.is_and(c):
            return z3.And(*[conv(x) for x in c.children()])
        l, r, op = _cmp_parts(c)
        p = to_poly(l, atoms)
        for m, v in to_poly(r, atoms).items():
            p[m] = p.get(m, 0) - v
        e = lin({m: v for m, v in p.items() if v != 0})
        return {"<=": e <= 0, "<": e < 0, ">=": e >= 0, ">": e > 0, "==": e == 0}[op]

    lgoal = conv(goal)
    out = []
    dropped = 0
    for c in constraints:
        try:
            out.append(conv(c))
        except NotPoly:
            dropped += 1
    for (t, lo, hi) in ranges:
        if t.get_id() in atoms:
            out.append(z3.And(t >= rv(Fraction(lo)), t <= rv(Fraction(hi))))
    return out + extra, lgoal, dict(monomials=len(mono_vars), atoms=len(atoms), dropped=dropped)


def _ite_conditions(t, acc=None, seen=None):
    if acc is None:
        acc, seen = {}, set()
    i = t.get_id()
    if i in seen:
        return acc
    seen.add(i)
    if z3.is_app(t):
        if t.decl().kind() == z3.Z3_OP_ITE and z3.is_arith(t):
            acc[t.arg(0).get_id()] = t.arg(0)
        for c in t.children():
            _ite_conditions(c, acc, seen)
    return acc


def _resolve_ites(t, choice):
    """replace every If(c, a, b) by a or b according to choice[c id] (bottom-up)"""
    memo = {}

    def go(x):
        i = x.get_id()
        if i in memo:
            return memo[i]
        if z3.is_app(x) and x.num_args() > 0:
            if x.decl().kind() == z3.Z3_OP_ITE and x.arg(0).get_id() in choice:
                r = go(x.arg(1) if choice[x.arg(0).get_id()] else x.arg(2))
            else:
                kids = [go(c) for c in x.children()]
                r = x.decl()(*kids) if any(k.get_id() != c.get_id() for k, c in zip(kids, x.children())) else x
        else:
            r = x
        memo[i] = r
        return r

    return go(t)


def prove(constraints, goal, ranges, timeout_ms=20000, max_ites=5):
    """case split on the (few) If-conditions of the goal, then linearise each case; all cases must be unsat"""
    conds = list(_ite_conditions(goal).values())
    if len(conds) > max_ites:
        return "unknown", {"why": "too many If-terms (%d)" % len(conds)}
    import itertools
    info = {"cases": 0}
    for bits in itertools.product((True, False), repeat=len(conds)):
        choice = {c.get_id(): b for c, b in zip(conds, bits)}
        g = _resolve_ites(goal, choice)
        case_cons = list(constraints) + [c if b else z3.Not(c) for c, b in zip(conds, bits)]
        case_cons = [_resolve_ites(c, choice) for c in case_cons]
        try:
            cons, lg, inf = linearise(case_cons, g, ranges)
        except NotPoly as e:
            return "unknown", {"why": str(e)}
        s = z3.Solver()
        s.set("timeout", timeout_ms)
        s.add(*cons)
        s.add(z3.Not(lg))
        r = s.check()
        info["cases"] += 1
        info.update(inf)
        if r != z3.unsat:
            info["verdict"] = str(r)
            return "unknown", info
    info["verdict"] = "unsat"
    return "unsat", info
