"""Deterministic concretisation ladder.

When the solver reports 'sat' on an abstraction (stub outputs, uninterpreted functions, relaxed reals) and
the model's own inputs do not reproduce on the real code, the check walks this fixed list of concrete inputs
through the SAME replay function (real code vs. independent oracle) in a fresh interpreter.  A hit becomes a
replayable VIOLATION; no hit leaves the obligation inconclusive (exit 2).  The ladder never contributes to a pass.
"""
import importlib
import json
import sys

GREYS = [(v, v, v) for v in (0, 17, 51, 85, 90, 102, 119, 128, 136, 153, 170, 187, 204, 221, 238, 255)]
HUES = [(255, 0, 0), (0, 255, 0), (0, 0, 255), (255, 255, 0), (0, 255, 255), (255, 0, 255),
        (128, 0, 0), (0, 128, 0), (0, 0, 128), (128, 128, 0), (0, 128, 128), (128, 0, 128),
        (255, 165, 0), (255, 192, 203), (165, 42, 42), (75, 0, 130), (240, 230, 140), (46, 139, 87),
        (100, 149, 237), (220, 20, 60), (255, 99, 71), (64, 224, 208), (147, 112, 219), (210, 180, 140)]
BACKGROUNDS = [(255, 255, 255), (0, 0, 0), (128, 128, 128), (25, 25, 112), (255, 255, 224), (240, 240, 240), (34, 34, 34)]


NEAR_GREYS = [(8, 9, 9), (33, 33, 34), (64, 63, 63), (116, 115, 115), (128, 129, 128), (200, 201, 200), (254, 255, 255), (1, 0, 0)]


def colours():
    return GREYS + HUES + NEAR_GREYS


DARK_CHROMATIC = [(51, 61, 56), (3, 41, 63), (31, 17, 34), (40, 20, 10), (10, 40, 30), (60, 20, 70)]
# pairs whose exact WCAG ratio lies within 0.005 BELOW a threshold (3.0 / 4.5 / 7.0): where premature rounding shows
NEAR_THRESHOLD = [((0, 120, 215), (255, 255, 255)), ((6, 69, 230), (255, 255, 255)), ((119, 119, 119), (7, 7, 7)), ((149, 149, 149), (255, 255, 255)),
                  ((7, 7, 7), (119, 119, 119)), ((0, 114, 190), (250, 240, 230)), ((174, 174, 174), (36, 36, 36))]
EDGE = [(38, 255, 0), (0, 255, 215), (226, 255, 0), (255, 40, 0), (0, 60, 255), (255, 0, 200), (46, 255, 0), (0, 255, 90)]


def pairs():
    for b in BACKGROUNDS:
        for t in colours():
            yield t, b
    # vivid colours on the sRGB gamut surface against a background of similar hue and nearby luminance
    # (the search has almost no room there: candidates clip, contrasts tie)
    for t, b in NEAR_THRESHOLD:
        yield t, b
    for t in DARK_CHROMATIC:
        for b in ((206, 150, 140), (226, 68, 133), (187, 138, 191), (255, 255, 255)):
            yield t, b
    for t in EDGE:
        for f in (0.95, 0.85, 0.74):
            yield t, tuple(int(round(c * f)) for c in t)
        yield t, tuple(min(255, c + 30) for c in t)


def main():
    check_id, kind, job = sys.argv[1], sys.argv[2], json.loads(sys.argv[3])
    limit = int(sys.argv[4]) if len(sys.argv) > 4 else 12000
    sys.path.insert(0, __import__("os").path.dirname(__import__("os").path.dirname(__import__("os").path.abspath(__file__))))
    from vf import repo
    from vf.runner import unjson, jsonable
    repo.load("cm_colors")
    mod = importlib.import_module("vf.checks.%s" % check_id.lower())
    gen = getattr(mod, "LADDER", {}).get(kind)
    fn = mod.REPLAYS[kind]
    if gen is None:
        print(json.dumps({"hit": None, "tried": 0}))
        return
    n = 0
    for inp in gen(job):
        n += 1
        if n > limit:
            break
        inp = dict(inp)
        inp["_job"] = job
        try:
            bad, detail = fn(inp)
        except Exception as e:  # a crash of the real code on a ladder input is not this obligation's business
            continue
        if bad:
            print(json.dumps({"hit": jsonable(inp), "detail": detail[-1500:], "tried": n}))
            return
    print(json.dumps({"hit": None, "tried": n}))


if __name__ == "__main__":
    main()
