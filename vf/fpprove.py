"""Compositional proofs of IEEE-754 obligations.

A monolithic QF_BVFP query through several divisions bit-blasts badly when the answer is unsat.  Here the
same obligation is proved in small solver steps, every one of them an SMT query:

 1. bottom-up, each FP sub-term n = op(c1..ck) gets a *fact* -- an interval [lo, hi] (candidate computed with
    python floats at the corners, then VERIFIED by the solver with the children replaced by fresh doubles that
    are only assumed to satisfy their own verified facts and the (equally abstracted) path constraints), or,
    failing that, 'not NaN';
 2. the goal is then tried with all sub-terms of height <= h replaced by fresh doubles carrying their facts,
    for decreasing h (coarse to fine).  unsat at any level proves the original obligation (the abstraction
    only forgets constraints).

Nothing here can produce a false 'holds': a wrong candidate interval simply fails its verification query.
"""
from __future__ import annotations

import math
import time

import z3

F64 = z3.Float64()
RNE = z3.RNE()


def fpv(x):
    return z3.FPVal(float(x), F64)


def _is_fp(t):
    return z3.is_fp(t)


def _collect(roots):
    """all FP-sorted sub-terms (DAG) with heights"""
    height = {}
    terms = {}

    def visit(t):
        i = t.get_id()
        if i in height:
            return height[i] if _is_fp(t) else height[i]
        hs = [visit(c) for c in t.children()]
        h = (max(hs) + 1) if hs else 0
        # leaves of the FP world: numerals and conversions from bit-vectors
        if _is_fp(t) and (z3.is_fp_value(t) or t.decl().kind() in (z3.Z3_OP_FPA_TO_FP_UNSIGNED,)):
            h = 0
        height[i] = h
        if _is_fp(t):
            terms[i] = t
        return h

    for r in roots:
        visit(r)
    return terms, height


def _corner(op, xs):
    try:
        return op(*xs)
    except (ZeroDivisionError, OverflowError, ValueError):
        return None


def _candidate(t, iv):
    """candidate interval for term t from children's intervals (python floats; verified later)"""
    k = t.decl().kind()
    ch = t.children()
    if z3.is_fp_value(t):
        try:
            v = float(str(z3.simplify(z3.fpToReal(t)).as_fraction())) if False else _fpval(t)
        except Exception:
            return None
        return (v, v)
    if k == z3.Z3_OP_FPA_TO_FP_UNSIGNED:
        bv = ch[-1]
        n = bv.size()
        # ZeroExt(8, x8): the value is below 2**8 when the argument is a zero extension of an 8-bit vector
        if z3.is_app(bv) and bv.decl().kind() == z3.Z3_OP_ZERO_EXT:
            n = bv.arg(0).size()
        return (0.0, float(2 ** n - 1))

    def civ(c):
        return iv.get(c.get_id())

    if k in (z3.Z3_OP_FPA_ADD, z3.Z3_OP_FPA_SUB, z3.Z3_OP_FPA_MUL, z3.Z3_OP_FPA_DIV):
        a, b = civ(ch[1]), civ(ch[2])
        if a is None or b is None:
            return None
        import operator
        op = {z3.Z3_OP_FPA_ADD: operator.add, z3.Z3_OP_FPA_SUB: operator.sub, z3.Z3_OP_FPA_MUL: operator.mul,
              z3.Z3_OP_FPA_DIV: operator.truediv}[k]
        if k == z3.Z3_OP_FPA_DIV and b[0] <= 0.0 <= b[1]:
            return None
        vals = [_corner(op, (x, y)) for x in a for y in b]
        if any(v is None or v != v for v in vals):
            return None
        return (min(vals), max(vals))
    if k == z3.Z3_OP_FPA_NEG:
        a = civ(ch[0])
        return None if a is None else (-a[1], -a[0])
    if k == z3.Z3_OP_FPA_ABS:
        a = civ(ch[0])
        if a is None:
            return None
        lo = 0.0 if a[0] <= 0 <= a[1] else min(abs(a[0]), abs(a[1]))
        return (lo, max(abs(a[0]), abs(a[1])))
    if k == z3.Z3_OP_ITE:
        a, b = civ(ch[1]), civ(ch[2])
        if a is None or b is None:
            return None
        return (min(a[0], b[0]), max(a[1], b[1]))
    return None


def _fpval(t):
    s = z3.simplify(z3.fpToReal(t))
    return float(s.numerator_as_long()) / float(s.denominator_as_long())


def _fact(v, f):
    if f is None:
        return z3.BoolVal(True)
    if f == "notnan":
        return z3.Not(z3.fpIsNaN(v))
    lo, hi = f
    return z3.And(z3.fpGEQ(v, fpv(lo)), z3.fpLEQ(v, fpv(hi)))


def _fp_ops(t, seen=None):
    """number of FP operation nodes (non-leaf FP-sorted terms) in t"""
    if seen is None:
        seen = set()
    i = t.get_id()
    if i in seen:
        return 0
    seen.add(i)
    n = 0
    if _is_fp(t) and t.children() and not z3.is_fp_value(t) and t.decl().kind() != z3.Z3_OP_FPA_TO_FP_UNSIGNED:
        n = 1
    for c in t.children():
        n += _fp_ops(c, seen)
    return n


def _small(cons, limit):
    """keep only the constraints that stay small after abstraction (dropping constraints is sound)"""
    return [c for c in cons if _fp_ops(c) <= limit]


QSTATS = {"inproc": 0, "external": 0, "time": 0.0}


def _check(cons, neg_goal, timeout_ms):
    """in-process z3 for the easy ones, then the external portfolio (cvc5 is ~6x faster on FP division)"""
    from . import solve
    t0 = time.time()
    s = z3.Solver()
    s.set("timeout", 400)
    s.add(*cons)
    s.add(neg_goal)
    r = s.check()
    if r != z3.unknown:
        QSTATS["inproc"] += 1
        QSTATS["time"] += time.time() - t0
        return r
    v, _, einfo = solve.external_portfolio(list(cons) + [neg_goal], {}, max(1, timeout_ms // 1000), logic="QF_BVFP")
    if v == "unknown" and __import__("os").environ.get("VERIF_VERBOSE"):
        print("   external:", einfo, file=__import__("sys").stderr)
    QSTATS["external"] += 1
    QSTATS["time"] += time.time() - t0
    return {"unsat": z3.unsat, "sat": z3.sat}.get(v, z3.unknown)


_FACT_CACHE = {}


def prove(cons, goal, step_timeout_ms=20000, budget_s=400, stats=None):
    """Try to prove cons => goal compositionally.  Returns ('unsat', info) or ('unknown', info)."""
    t0 = time.time()
    terms, height = _collect(list(cons) + [goal])
    order = sorted(terms.values(), key=lambda t: height[t.get_id()])
    fresh = {i: z3.FP("fpabs!%d" % i, F64) for i in terms}
    facts = {}
    iv = {}
    nq = 0
    for t in order:
        i = t.get_id()
        if time.time() - t0 > budget_s:
            break
        cand = _candidate(t, iv)
        if height[i] == 0:
            # leaves: numerals are what they are; conversions from n-bit vectors are verified directly
            if cand is not None:
                nq += 1
                if _check([], z3.Not(_fact(t, cand)), step_timeout_ms) == z3.unsat:
                    iv[i] = cand
                    facts[i] = cand
            continue
        kids = [c for c in _fp_children(t)]
        seen = set()
        subs = []
        for c in kids:
            ci = c.get_id()
            if ci in fresh and ci not in seen and not z3.is_fp_value(c):
                seen.add(ci)
                subs.append((c, fresh[ci]))
        kid_facts = [_fact(fresh[c.get_id()], facts.get(c.get_id())) for (c, _) in subs]
        acons = _small([z3.substitute(c, *subs) for c in cons] if subs else list(cons), 0)
        at = z3.substitute(t, *subs) if subs else t
        ckey = (i, tuple(sorted(c.get_id() for c in acons)), tuple(str(facts.get(c.get_id())) for (c, _) in subs))
        if ckey in _FACT_CACHE:
            f = _FACT_CACHE[ckey][0]
            if f is not None:
                facts[i] = f
                if f != "notnan":
                    iv[i] = f
            continue
        done = False
        if cand is not None:
            nq += 1
            if _check(acons + kid_facts, z3.Not(_fact(at, cand)), step_timeout_ms) == z3.unsat:
                iv[i] = cand
                facts[i] = cand
                done = True
        if not done:
            nq += 1
            if _check(acons + kid_facts, z3.fpIsNaN(at), step_timeout_ms) == z3.unsat:
                facts[i] = "notnan"
        _FACT_CACHE[ckey] = (facts.get(i), t)   # keep t alive so the id stays valid
    # goal, coarse to fine
    hmax = max([height[i] for i in terms] + [0])
    info = {"lemma_queries": nq, "facts": len(facts), "levels_tried": 0}
    for h in range(hmax, 0, -1):
        if time.time() - t0 > budget_s:
            break
        layer = [t for t in order if height[t.get_id()] == h]
        # replace every term of height == h (their sub-terms vanish with them); higher terms stay concrete ops
        subs = [(t, fresh[t.get_id()]) for t in layer]
        lower = [t for t in order if 0 < height[t.get_id()] < h]
        if not subs:
            continue
        agoal = z3.substitute(goal, *subs)
        acons = _small([z3.substitute(c, *subs) for c in cons], _fp_ops(agoal) + 2)
        fcs = [_fact(fresh[t.get_id()], facts.get(t.get_id())) for t in layer]
        info["levels_tried"] += 1
        nq += 1
        r = _check(acons + fcs, z3.Not(agoal), step_timeout_ms)
        if r == z3.unsat:
            info.update(level=h, queries=nq, time_s=round(time.time() - t0, 3))
            return "unsat", info
    info.update(queries=nq, time_s=round(time.time() - t0, 3))
    return "unknown", info


def _fp_children(t):
    out = []
    for c in t.children():
        if _is_fp(c):
            out.append(c)
        elif z3.is_bool(c):
            # conditions of If-terms: their FP operands are children too
            stack = [c]
            while stack:
                x = stack.pop()
                for y in x.children():
                    if _is_fp(y):
                        out.append(y)
                    else:
                        stack.append(y)
    return out
