#!/usr/bin/env python
"""Replay of a solver counterexample for C01 (api) on the unmodified real code.
obligation: C01 not success => contrast(returned, bg) < 7.0
exit 1 = the violation reproduces, exit 0 = it does not.
"""
import json, sys
sys.path.insert(0, '/verif')
from vf.replay import run
sys.exit(run('C01', 'api', json.loads('{"G!11b": 5, "G!11g": 1, "G!11r": 0, "G!13b": 1, "G!13g": 0, "G!13r": 1, "G!15b": 0, "G!15g": 3, "G!15r": 0, "G!17b": 1, "G!17g": 1, "G!17r": 4, "G!19b": 0, "G!19g": 0, "G!19r": 0, "G!21b": 0, "G!21g": 0, "G!21r": 0, "G!23b": 0, "G!23g": 0, "G!23r": 0, "G!3b": 0, "G!3g": 1, "G!3r": 0, "G!5b": 1, "G!5g": 0, "G!5r": 1, "G!7b": 3, "G!7g": 1, "G!7r": 0, "G!9b": 0, "G!9g": 0, "G!9r": 3, "G_same!10": false, "G_same!12": false, "G_same!14": false, "G_same!16": false, "G_same!18": false, "G_same!2": false, "G_same!20": false, "G_same!22": false, "G_same!4": false, "G_same!6": false, "G_same!8": false, "REC_same!1": true, "_job": {"kind": "api", "large": false, "mode": 2, "tpl": "hex3", "very": true}, "_obligation": "C01 not success => contrast(returned, bg) < 7.0", "bb": 2, "bg": 3, "br": 2}')))
