#!/bin/sh
# Builds /verif/.venv offline: a venv over /venv's interpreter that also sees /venv's site-packages
# (tinycss2, click, rich, the editable cm-colors) plus z3-solver / crosshair-tool / cvc5 / mpmath / jsonschema
# from the offline wheelhouse.
set -e
HERE="$(cd "$(dirname "$0")" && pwd)"
if [ -x "$HERE/.venv/bin/python" ] && "$HERE/.venv/bin/python" -c "import z3, crosshair, mpmath" 2>/dev/null; then
  exit 0
fi
rm -rf "$HERE/.venv"
/venv/bin/python -m venv "$HERE/.venv"
SP="$("$HERE/.venv/bin/python" -c 'import sysconfig; print(sysconfig.get_paths()["purelib"])')"
echo "import site; site.addsitedir('/venv/lib/python3.12/site-packages')" > "$SP/_overlay.pth"
PIP_NO_INDEX=1 "$HERE/.venv/bin/pip" install -q --no-index --find-links /opt/veriftools/wheels z3-solver crosshair-tool cvc5 mpmath jsonschema
"$HERE/.venv/bin/python" -c "import z3, crosshair, mpmath, tinycss2, click; print('verif venv ok', z3.get_version_string())"
