"""C02 -- fixing never harms: readable colours are kept, contrast never drops."""
from .. import api as apimod
from .. import runner
from . import c01

ID = "C02"

META = dict(
    explanation=(
        "Clause A: the real make_readable pipeline is executed by symx exactly as in C01 (all spelling templates x 12 settings, "
        "search stubbed by 'input or any valid colour'); per path z3 proves: if the reference WCAG ratio of the parsed pair already "
        "meets the required minimum (+1e-9), the call reports success and the returned value reads back as exactly the original "
        "(composited) colour.  Clause B: the same pipeline with the contrast ratio as an uninterpreted function and the search "
        "stub under the contract 'contrast not lower than its input's' -- which check C04's job on the real generate_accessible_color "
        "proves from the contracts of the two search routines -- per path z3 proves ratio(returned, bg) >= ratio(original, bg), "
        "including the relaxed fallback that returns the recursive result."),
    functions=c01.META["functions"] + ["optimisation.generate_accessible_color (clause B1, in C04's G job)"],
    stubs=c01.META["stubs"] + ["clause B: calculate_contrast_ratio -> UF CR in [1,21] (C05.2); generate_accessible_color -> input or any valid colour with "
                               "CR(out,bg) >= CR(in,bg) (proved in C04 'C02.B1'); mode 2: _strategy_recursive -> stub with the monotonicity the mode-1 job proves"],
    trusted=["z3", "vf/ref.py", "lemmas discharged by C04, C05, C06"],
    assumptions=["real model of doubles, guard band 1e-9 at the thresholds"],
)


def jobs(tier):
    js = []
    for j in c01.jobs(tier):
        js.append(dict(j, which=["C02"]))
    # clause B on the logic-level configuration
    tpls = ["tuple", "rgb", "hex6"] if tier == "quick" else ["tuple", "list", "rgb", "hsl", "rgba", "hex6", "named"]
    for tpl in tpls:
        for mode, large, very in c01.settings():
            j = dict(kind="api", tpl=tpl, mode=mode, large=large, very=very, config="uf", g={"monotone": True},
                     rec={"monotone": True}, which=["C02B"])
            if mode == 2 and tier == "quick":
                j["caps"] = {"15": 3}
                js.append(j)
            elif mode == 2:
                if tpl in ("tuple", "rgb"):
                    for i in range(4):
                        js.append(dict(j, shard=[i, 4, 40]))
            else:
                js.append(j)
    # clause B1 on the real generate_accessible_color (search routines as contract stubs), symbolic schedules
    for ks in [1, 2]:
        js.append(dict(kind="G", ks=ks))
    if tier != "quick":
        for i in range(16):
            js.append(dict(kind="G", ks=3, shard=[i, 16, 14]))
    return js


def run_job(job):
    if job["kind"] == "G":
        from . import c04
        return c04.run_job(job, check_id=ID, only=lambda n: n.startswith("C02.B1") or n.startswith("no exception"))
    return c01.run_api_job(job, set(job["which"]), ID)


def replay_api(inp):
    return c01.replay_api(inp, props=("C02",))


def replay_G(inp):
    from cm_colors.core import optimisation as opt
    from .. import ref
    job = inp["_job"]
    t = (int(inp["tr"]), int(inp["tg"]), int(inp["tb"]))
    b = (int(inp["br"]), int(inp["bg"]), int(inp["bb"]))
    seq = [float(inp["tol%d" % i]) for i in range(job["ks"])]
    res = opt.generate_accessible_color(t, b, False, float(inp.get("target", 7.0)), float(inp.get("minc", 4.5)), seq)
    r0, r1 = ref.wcag_ratio(t, b), ref.wcag_ratio(res, b)
    return r1 < r0 - 1e-9, "generate_accessible_color(%r,%r,seq=%r) -> %r: ratio %.6f -> %.6f" % (t, b, seq, res, r0, r1)


def ladder_G(job):
    from . import c04
    return c04._ladder_routine(job)


REPLAYS = {"api": replay_api, "G": replay_G}
LADDER = dict(c01.LADDER, G=ladder_G)


def main(tier, seed):
    m = dict(c01.meta_for(tier))
    m.update(META)
    m["bounds"] = c01.meta_for(tier)["bounds"]
    m["outside"] = c01.meta_for(tier)["outside"]
    return runner.main(ID, __name__, jobs(tier), tier, seed, m)
