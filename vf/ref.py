"""Reference models, written from the published definitions, independent of the repository.

Every function runs both concretely (python floats: replay oracle) and under symx (proxy
values: the solver compares terms).  Nothing here imports cm_colors.
"""
from fractions import Fraction

from . import symx
from .symx import SymMath, ite, smax, smin

M = SymMath()

# ---------------------------------------------------------------- WCAG 2

def wcag_lin(c):
    """sRGB channel in [0,1] -> linear.  WCAG 2.x text: threshold 0.03928 (sRGB: 0.04045); both
    give the same value on every 8-bit channel (10/255 < 0.03928 < 0.04045 < 11/255)."""
    return ite(c <= 0.03928, c / 12.92, ((c + 0.055) / 1.055) ** 2.4)


def wcag_luminance(rgb):
    r, g, b = [wcag_lin(x / 255.0) for x in rgb]
    return 0.2126 * r + 0.7152 * g + 0.0722 * b


def wcag_ratio_parts(t, b):
    lt, lb = wcag_luminance(t), wcag_luminance(b)
    hi = smax(lt, lb)
    lo = smin(lt, lb)
    return hi + 0.05, lo + 0.05


def wcag_ratio(t, b):
    n, d = wcag_ratio_parts(t, b)
    return n / d


def wcag_min(large, very):
    """required minimum: 4.5 normal, 3.0 large, 7.0 very-readable normal, 4.5 very-readable large"""
    if very:
        return 4.5 if large else 7.0
    return 3.0 if large else 4.5


def wcag_thresholds(large):
    """(AA threshold, AAA threshold)"""
    return (3.0, 4.5) if large else (4.5, 7.0)


def wcag_label(ratio, large):
    aa, aaa = wcag_thresholds(large)
    if ratio >= aaa:
        return "AAA"
    if ratio >= aa:
        return "AA"
    return "FAIL"


# ---------------------------------------------------------------- CSS Color Level 3

def css_hue_to_rgb(m1, m2, h):
    h = ite(h < 0, h + 1, h)
    h = ite(h > 1, h - 1, h)
    return ite(h * 6 < 1, m1 + (m2 - m1) * h * 6,
               ite(h * 2 < 1, m2,
                   ite(h * 3 < 2, m1 + (m2 - m1) * (Fraction(2, 3) - h) * 6, m1)))


def css_hsl_exact(hue_deg, s, l):
    """CSS Color 3 section 4.2.4: (hue in degrees, any real; s, l in [0,1]) -> exact r,g,b in [0,1]."""
    q = M.floor(hue_deg / 360)
    h = hue_deg / 360 - q          # ((hue mod 360) + 360) mod 360, normalised to [0,1)
    m2 = ite(l <= Fraction(1, 2), l * (s + 1), l + s - l * s)
    m1 = l * 2 - m2
    return (css_hue_to_rgb(m1, m2, h + Fraction(1, 3)), css_hue_to_rgb(m1, m2, h), css_hue_to_rgb(m1, m2, h - Fraction(1, 3)))


def source_over(c, alpha, bg):
    """per-channel source-over compositing of an opaque-background blend, all on the 0..255 scale"""
    return tuple(alpha * ci + (1 - alpha) * bi for ci, bi in zip(c, bg))


def nearest8(x):
    """concrete: set of acceptable nearest 8-bit values (ties accept both)"""
    import math
    f = math.floor(x)
    if x - f < 0.5:
        return {f}
    if x - f > 0.5:
        return {f + 1}
    return {f, f + 1}


def css_keywords():
    """148 CSS Color 3 keywords (+ rebeccapurple) -> (r,g,b), from tinycss2's own table (third party, CSS-conformant)."""
    import tinycss2.color3 as c3
    out = {}
    for k, v in c3._COLOR_KEYWORDS.items():
        if k in ("currentcolor", "transparent"):
            continue
        out[k] = (round(v.red * 255), round(v.green * 255), round(v.blue * 255))
    out.setdefault("rebeccapurple", (0x66, 0x33, 0x99))
    return out


# ---------------------------------------------------------------- OKLab / OKLCH (Ottosson 2020), constants typed from the publication
import math as _pm

OK_M1 = ((0.4122214708, 0.5363325363, 0.0514459929),
         (0.2119034982, 0.6806995451, 0.1073969566),
         (0.0883024619, 0.2817188376, 0.6299787005))
OK_M2 = ((0.2104542553, 0.7936177850, -0.0040720468),
         (1.9779984951, -2.4285922050, 0.4505937099),
         (0.0259040371, 0.7827717662, -0.8086757660))
OK_M2_INV = ((1.0, 0.3963377774, 0.2158037573),
             (1.0, -0.1055613458, -0.0638541728),
             (1.0, -0.0894841775, -1.2914855480))
OK_M1_INV = ((4.0767416621, -3.3077115913, 0.2309699292),
             (-1.2684380046, 2.6097574011, -0.3413193965),
             (-0.0041960863, -0.7034186147, 1.7076147010))


def srgb_lin(c):
    """sRGB (IEC 61966-2-1) transfer function, channel in [0,1]"""
    return ite(c <= 0.04045, c / 12.92, ((c + 0.055) / 1.055) ** 2.4)


def cbrt(x):
    """real cube root (sign preserving); x ** (1/3) for x >= 0"""
    return ite(x >= 0, smax(x, 0) ** (1 / 3), -(smax(-x, 0) ** (1 / 3)))


def oklab_from_rgb(rgb):
    r, g, b = [srgb_lin(v / 255.0) for v in rgb]
    lms = [m[0] * r + m[1] * g + m[2] * b for m in OK_M1]
    l_, m_, s_ = [cbrt(v) for v in lms]
    return tuple(m[0] * l_ + m[1] * m_ + m[2] * s_ for m in OK_M2)


def oklab_to_linear(L, a, b):
    """OKLab -> linear sRGB (unclipped)"""
    lms_ = [m[0] * L + m[1] * a + m[2] * b for m in OK_M2_INV]
    lms = [v * v * v for v in lms_]
    return tuple(m[0] * lms[0] + m[1] * lms[1] + m[2] * lms[2] for m in OK_M1_INV)


def srgb_gamma(c):
    """linear -> sRGB transfer function, channel in [0,1]"""
    return ite(c <= 0.0031308, 12.92 * c, 1.055 * (smax(c, 0) ** (1.0 / 2.4)) - 0.055)
