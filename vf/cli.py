import argparse
import importlib
import os
import sys


def main():
    ap = argparse.ArgumentParser()
    ap.add_argument("check")
    ap.add_argument("--tier", default=os.environ.get("VERIF_TIER", "quick"), choices=["quick", "thorough"])
    ap.add_argument("--replay")
    a = ap.parse_args()
    if a.replay:
        from .runner import run_replay
        ok, detail = run_replay(a.replay)
        print(detail)
        sys.exit(1 if ok else (0 if ok is False else 2))
    seed = int(os.environ.get("VERIF_SEED", "0") or 0)
    mod = importlib.import_module("vf.checks.%s" % a.check.lower())
    try:
        rc = mod.main(a.tier, seed)
    except SystemExit:
        raise
    except BaseException as e:  # harness error: never a violation
        import traceback
        traceback.print_exc()
        rc = 2
    sys.exit(rc)


if __name__ == "__main__":
    main()
