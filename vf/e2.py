"""E2: CrossHair (symbolic execution of Python with z3) over contract functions that call the real API.

Each condition runs in its own process: `crosshair check --report_all --per_condition_timeout T file.py:LINE`.
Verdicts per condition:
  'confirmed'      -- "Confirmed over all paths" (complete for the stated argument types)
  'not-confirmed'  -- no counterexample within the budget (bounded bug-hunting; exit 0 but recorded as such)
  'counterexample' -- replayed concretely in a fresh interpreter (no CrossHair); only a reproducing one is a VIOLATION
  'unable'         -- precondition never met / all paths aborted -> inconclusive
"""
import ast
import json
import os
import re
import subprocess
import sys
import time
from concurrent.futures import ThreadPoolExecutor

from .runner import EVIDENCE, KNOWN, PY, REPLAYS, VERIF, jsonable, known_match, load_known


def conditions(path):
    """[(function name, line)] of the contract functions (those whose docstring has a 'post:' line)"""
    tree = ast.parse(open(path).read())
    out = []
    for node in tree.body:
        if isinstance(node, ast.FunctionDef) and node.name.startswith("prop_"):
            doc = ast.get_docstring(node) or ""
            if "post:" in doc:
                out.append((node.name, node.lineno))
    return out


MSG_RE = re.compile(r"^(?P<file>[^:]+):(?P<line>\d+): (?P<kind>error|info): (?P<msg>.*)$")


def run_condition(path, name, line, timeout_s, per_path=None):
    cmd = [PY, "-m", "crosshair", "check", "--report_all", "--per_condition_timeout", str(timeout_s)]
    if per_path:
        cmd += ["--per_path_timeout", str(per_path)]
    cmd.append("%s:%d" % (path, line))
    env = dict(os.environ)
    env["PYTHONPATH"] = VERIF
    env["PYTHONHASHSEED"] = "0"
    t0 = time.time()
    try:
        p = subprocess.run(cmd, capture_output=True, text=True, timeout=timeout_s * 4 + 120, env=env, cwd=VERIF)
        out = p.stdout + p.stderr
    except subprocess.TimeoutExpired as e:
        out = "TIMEOUT " + str(e)
        if timeout_s > 20:
            # CrossHair overran its own budget (a path stuck inside the solver): one retry with a third of the budget
            r = run_condition(path, name, line, max(15, timeout_s // 3), per_path=max(5, timeout_s // 9))
            r["msg"] = "(after one over-run at %d s) %s" % (timeout_s, r["msg"])
            return r
    dt = time.time() - t0
    verdict, msg = "unable", out.strip()[-400:]
    for l in out.splitlines():
        m = MSG_RE.match(l.strip())
        if not m:
            continue
        text = m.group("msg")
        if m.group("kind") == "error":
            verdict, msg = "counterexample", text
            break
        if "Confirmed over all paths" in text:
            verdict, msg = "confirmed", text
        elif "Not confirmed" in text:
            verdict, msg = "not-confirmed", text
        elif "Unable to meet precondition" in text:
            verdict, msg = "unable", text
    return dict(name=name, line=line, verdict=verdict, msg=msg, time_s=round(dt, 2))


def parse_call(msg, name):
    """'false when calling prop_x(a=1, b='x')' -> source text of the argument list"""
    i = msg.find(name + "(")
    if i < 0:
        return None
    depth, j = 0, i + len(name)
    instr, q, esc = False, "", False
    for k in range(j, len(msg)):
        ch = msg[k]
        if instr:
            if esc:
                esc = False
            elif ch == "\\":
                esc = True
            elif ch == q:
                instr = False
            continue
        if ch in "'\"":
            instr, q = True, ch
        elif ch == "(":
            depth += 1
        elif ch == ")":
            depth -= 1
            if depth == 0:
                return msg[j + 1:k]
    return None


def replay_call(path, name, argsrc, timeout=300):
    """run the contract function concretely (no CrossHair): exit 1 iff it returns falsy or raises"""
    os.makedirs(REPLAYS, exist_ok=True)
    import hashlib
    h = hashlib.sha1((name + argsrc).encode()).hexdigest()[:10]
    rp = os.path.join(REPLAYS, "%s_%s.py" % (os.path.basename(path)[:-3], h))
    with open(rp, "w") as f:
        f.write("#!/usr/bin/env python\n\"\"\"Replay of a CrossHair counterexample on the real code (no symbolic execution).\n"
                "exit 1 = the violation reproduces.\"\"\"\nimport sys, importlib.util\nsys.path.insert(0, %r)\n" % VERIF)
        f.write("from math import nan, inf\n")
        f.write("spec = importlib.util.spec_from_file_location('h', %r)\nh = importlib.util.module_from_spec(spec)\nspec.loader.exec_module(h)\n" % path)
        f.write("try:\n    r = h.%s(%s)\nexcept Exception as e:\n    print('raised', repr(e)); sys.exit(1)\n" % (name, argsrc))
        f.write("print('%s(%s) ->', r)\nsys.exit(0 if r else 1)\n" % (name, argsrc.replace("\\", "\\\\").replace("'", "\\'")))
    env = dict(os.environ)
    env["PYTHONPATH"] = VERIF
    try:
        p = subprocess.run([PY, rp], capture_output=True, text=True, timeout=timeout, env=env)
    except subprocess.TimeoutExpired:
        return None, rp, "timeout"
    return (p.returncode == 1), rp, (p.stdout + p.stderr)[-1500:]


def main(check_id, harness_path, tier, seed, meta, t_quick=25, t_thorough=120, key_fn=None, only=None):
    t0 = time.time()
    T = t_thorough if tier == "thorough" else t_quick
    conds = conditions(harness_path)
    if only:
        conds = [c for c in conds if only(c[0])]
    nproc = int(os.environ.get("VERIF_JOBS", "0")) or min(16, os.cpu_count() or 4)
    with ThreadPoolExecutor(nproc) as ex:
        results = list(ex.map(lambda c: run_condition(harness_path, c[0], c[1], T, per_path=max(5, T // 3)), conds))
    # 'Unable to meet precondition' also means "no path finished inside the per-path budget" (timing under load):
    # such conditions get one more run, alone in the pool's place, with the whole budget available to a single path
    for i, r in enumerate(results):
        if r["verdict"] == "unable":
            r2 = run_condition(harness_path, r["name"], r["line"], T, per_path=T)
            r2["msg"] = "(second run, per-path budget = condition budget) " + r2["msg"]
            results[i] = r2
    known, _ = load_known()
    violations, known_hits, inconclusive = [], [], []
    for r in results:
        if r["verdict"] == "counterexample":
            argsrc = parse_call(r["msg"], r["name"])
            if argsrc is None:
                r["verdict"] = "unable"
                inconclusive.append(r)
                continue
            ok, rp, detail = replay_call(harness_path, r["name"], argsrc)
            r["replay"], r["detail"], r["args"] = rp, detail, argsrc
            if ok:
                key = key_fn(r) if key_fn else None
                line = known_match(known, check_id, key) if key else None
                if line:
                    known_hits.append((key, line))
                    r["verdict"] = "known-finding"
                else:
                    violations.append(r)
            else:
                r["verdict"] = "unreproduced"
                inconclusive.append(r)
                try:
                    os.remove(rp)
                except OSError:
                    pass
        elif r["verdict"] == "unable":
            inconclusive.append(r)
    for key, line in dict(known_hits).items():
        print(line)
    for v in violations:
        print("VIOLATION property=%s replay=%s" % (check_id, v["replay"]))
        print("  condition=%s args=%s" % (v["name"], v["args"][:300]))
    confirmed = sum(1 for r in results if r["verdict"] == "confirmed")
    notconf = sum(1 for r in results if r["verdict"] == "not-confirmed")
    wall = time.time() - t0
    cov = dict(
        explanation=meta["explanation"], functions_encoded=meta["functions"], bounds=meta["bounds"] + ["per-condition budget %d s" % T],
        outside_bounds=meta.get("outside", []),
        conditions=len(results), confirmed_over_all_paths=confirmed, not_confirmed_bounded_bug_hunting=notconf,
        counterexamples_reproduced=len(violations), known_findings_hit=[k for k, _ in known_hits],
        per_condition=[{k: r[k] for k in ("name", "verdict", "time_s", "msg")} for r in results],
        evaluations=len(results), distinct_nontrivial=confirmed + notconf,
        rule="one evaluation = one CrossHair condition (contract function over the real API with symbolic arguments of the stated types/lengths); "
             "non-trivial = CrossHair explored it and reported either 'Confirmed over all paths' or 'Not confirmed' (paths exhausted the time budget without a counterexample)",
        samples=[{k: r[k] for k in ("name", "verdict", "msg")} for r in results[:6]],
        obligations=len(results), discharged=confirmed,
        checker_cmd="crosshair check --report_all --per_condition_timeout %d <harness>:<line>" % T,
        trusted_base=meta.get("trusted", ["crosshair-tool 0.0.110", "z3 5.1.0"]), exhaustive=False,
        inconclusive=[{k: r.get(k) for k in ("name", "verdict", "msg")} for r in inconclusive][:10],
        violations=[{k: v.get(k) for k in ("name", "args", "replay")} for v in violations])
    ev = dict(property_id=check_id, tier=tier, seed=int(seed or 0), level="other", coverage=cov,
              assumptions=meta.get("assumptions", []), wall_s=round(wall, 2), violations=len(violations))
    os.makedirs(EVIDENCE, exist_ok=True)
    json.dump(jsonable(ev), open(os.path.join(EVIDENCE, "%s.json" % check_id), "w"), indent=1)
    print("%s tier=%s conditions=%d confirmed=%d not-confirmed=%d violations=%d known=%d inconclusive=%d wall=%.1fs"
          % (check_id, tier, len(results), confirmed, notconf, len(violations), len(dict(known_hits)), len(inconclusive), wall))
    if violations:
        return 1
    if inconclusive or not results:
        for r in inconclusive[:5]:
            print("INCONCLUSIVE %s: %s" % (r["name"], r["msg"][:300]), file=sys.stderr)
        return 2
    return 0


def run_extra(check_id, harness_path, tier, t_quick=25, t_thorough=90, label="crosshair_clause"):
    """Run a CrossHair harness as an additional clause of an E1 check: results are merged into the evidence file that the
    E1 part has just written; returns the exit code contribution (0 / 1 / 2)."""
    T = t_thorough if tier == "thorough" else t_quick
    conds = conditions(harness_path)
    nproc = int(os.environ.get("VERIF_JOBS", "0")) or min(16, os.cpu_count() or 4)
    with ThreadPoolExecutor(nproc) as ex:
        results = list(ex.map(lambda c: run_condition(harness_path, c[0], c[1], T, per_path=max(5, T // 3)), conds))
    violations, inconclusive = [], []
    for r in results:
        if r["verdict"] == "counterexample":
            argsrc = parse_call(r["msg"], r["name"])
            ok, rp, detail = replay_call(harness_path, r["name"], argsrc) if argsrc is not None else (None, None, "")
            r["replay"], r["args"] = rp, argsrc
            if ok:
                violations.append(r)
            else:
                r["verdict"] = "unreproduced"
                inconclusive.append(r)
        elif r["verdict"] == "unable":
            inconclusive.append(r)
    for v in violations:
        print("VIOLATION property=%s replay=%s" % (check_id, v["replay"]))
        print("  condition=%s args=%s" % (v["name"], (v.get("args") or "")[:300]))
    evp = os.path.join(EVIDENCE, "%s.json" % check_id)
    try:
        ev = json.load(open(evp))
        ev["coverage"][label] = dict(
            engine="crosshair-tool 0.0.110 (bounded bug-hunting unless 'confirmed')", per_condition_timeout_s=T,
            conditions=[{k: r.get(k) for k in ("name", "verdict", "time_s", "msg")} for r in results],
            confirmed=sum(1 for r in results if r["verdict"] == "confirmed"),
            not_confirmed=sum(1 for r in results if r["verdict"] == "not-confirmed"))
        ev["violations"] = ev.get("violations", 0) + len(violations)
        json.dump(ev, open(evp, "w"), indent=1)
    except Exception:
        pass
    print("%s %s: conditions=%d violations=%d inconclusive=%d" % (check_id, label, len(results), len(violations), len(inconclusive)))
    if violations:
        return 1
    if inconclusive:
        for r in inconclusive[:3]:
            print("INCONCLUSIVE %s: %s" % (r["name"], r["msg"][:200]), file=sys.stderr)
        return 2
    return 0
