"""CrossHair contract functions for C19: user text reaches the HTML reports only HTML-escaped.

For each user-controlled slot: the report produced with the text s in that slot must equal the report produced
with a benign marker in that slot, with every occurrence of the marker replaced by the HTML-escaped text
(& < > " ' -> &amp; &lt; &gt; &quot; &#x27;, per character; written out here independently of html.escape).
That is: s appears only escaped (quotes included), everywhere the slot is interpolated, and nothing else changes.
The symbolic text is one or two symbolic characters (explicit per-character case split keeps every path's expected
string mostly concrete; whole-string equalities with a variable-length symbolic escape did not finish a single path).
"""
import io
import os
import sys

sys.path.insert(0, os.path.join(os.environ.get("VERIF_REPO", "/repo"), "src"))

from cm_colors.core import visualiser  # noqa: E402
from cm_colors.cli import html_report  # noqa: E402

MARK = "ZQXJMARKQ"


class _Sink(io.StringIO):
    def __init__(self, store):
        super().__init__()
        self._store = store

    def close(self):
        self._store.append(self.getvalue())
        super().close()

    def __exit__(self, *a):
        self.close()
        return False


def _capture(mod, fn):
    """run fn() with mod.open writing into memory; returns the text written"""
    store = []
    mod.open = lambda *a, **k: _Sink(store)
    try:
        r = fn()
    finally:
        try:
            del mod.open
        except AttributeError:
            pass
    return store[-1] if store else r


def esc1(c):
    if c == "&":
        return "&amp;"
    if c == "<":
        return "&lt;"
    if c == ">":
        return "&gt;"
    if c == '"':
        return "&quot;"
    if c == "'":
        return "&#x27;"
    return c


_TPL = {}


def _expect(key, make, s, esc):
    parts = _TPL.get(key)
    if parts is None:
        tpl = make(MARK)
        if not isinstance(tpl, str) or MARK not in tpl:
            return False
        parts = tpl.split(MARK)
        _TPL[key] = parts
    out = make(s)
    if not isinstance(out, str):
        return False
    exp = parts[0]
    for p in parts[1:]:
        exp = exp + esc + p
    return out == exp


BASE = dict(fg="#777777", bg="#ffffff", tuned_fg="#595959", original_level="FAIL", new_level="AA", selector="p.note", file_path="a.css")


def _card(slot, s):
    kw = dict(BASE)
    kw[slot] = s
    return visualiser.to_html(**kw)


def _bulk(slot, s):
    pair = dict(fg="#777777", bg="#ffffff", tuned_fg="#595959", original_level="FAIL", new_level="AA", selector="Pair 1", file="Bulk API")
    pair[slot] = s
    return _capture(visualiser, lambda: visualiser.to_html_bulk([pair], output_path="x.html"))


def _cli(slot, s):
    pair = dict(selector="p.note", file="a.css", bg="white", original_text="#777", tuned_text="rgb(89, 89, 89)", original_level="FAIL", new_level="AA")
    pair[slot] = s
    return _capture(html_report, lambda: html_report.generate_report([pair], output_path="x.html"))


def prop_card_fg_1(c: str) -> bool:
    """
    pre: len(c) == 1
    post: _
    """
    return _expect("card.fg", lambda v: _card("fg", v), c + "", esc1(c))


def prop_card_fg_2(c: str, d: str) -> bool:
    """
    pre: len(c) == 1 and len(d) == 1
    post: _
    """
    return _expect("card.fg", lambda v: _card("fg", v), c + d, esc1(c) + esc1(d))


def prop_card_bg_1(c: str) -> bool:
    """
    pre: len(c) == 1
    post: _
    """
    return _expect("card.bg", lambda v: _card("bg", v), c + "", esc1(c))


def prop_card_bg_2(c: str, d: str) -> bool:
    """
    pre: len(c) == 1 and len(d) == 1
    post: _
    """
    return _expect("card.bg", lambda v: _card("bg", v), c + d, esc1(c) + esc1(d))


def prop_card_tuned_fg_1(c: str) -> bool:
    """
    pre: len(c) == 1
    post: _
    """
    return _expect("card.tuned_fg", lambda v: _card("tuned_fg", v), c + "", esc1(c))


def prop_card_tuned_fg_2(c: str, d: str) -> bool:
    """
    pre: len(c) == 1 and len(d) == 1
    post: _
    """
    return _expect("card.tuned_fg", lambda v: _card("tuned_fg", v), c + d, esc1(c) + esc1(d))


def prop_card_selector_1(c: str) -> bool:
    """
    pre: len(c) == 1
    post: _
    """
    return _expect("card.selector", lambda v: _card("selector", v), c + "", esc1(c))


def prop_card_selector_2(c: str, d: str) -> bool:
    """
    pre: len(c) == 1 and len(d) == 1
    post: _
    """
    return _expect("card.selector", lambda v: _card("selector", v), c + d, esc1(c) + esc1(d))


def prop_card_file_path_1(c: str) -> bool:
    """
    pre: len(c) == 1
    post: _
    """
    return _expect("card.file_path", lambda v: _card("file_path", v), c + "", esc1(c))


def prop_card_file_path_2(c: str, d: str) -> bool:
    """
    pre: len(c) == 1 and len(d) == 1
    post: _
    """
    return _expect("card.file_path", lambda v: _card("file_path", v), c + d, esc1(c) + esc1(d))


def prop_bulk_fg_1(c: str) -> bool:
    """
    pre: len(c) == 1
    post: _
    """
    return _expect("bulk.fg", lambda v: _bulk("fg", v), c + "", esc1(c))


def prop_bulk_fg_2(c: str, d: str) -> bool:
    """
    pre: len(c) == 1 and len(d) == 1
    post: _
    """
    return _expect("bulk.fg", lambda v: _bulk("fg", v), c + d, esc1(c) + esc1(d))


def prop_bulk_bg_1(c: str) -> bool:
    """
    pre: len(c) == 1
    post: _
    """
    return _expect("bulk.bg", lambda v: _bulk("bg", v), c + "", esc1(c))


def prop_bulk_bg_2(c: str, d: str) -> bool:
    """
    pre: len(c) == 1 and len(d) == 1
    post: _
    """
    return _expect("bulk.bg", lambda v: _bulk("bg", v), c + d, esc1(c) + esc1(d))


def prop_bulk_tuned_fg_1(c: str) -> bool:
    """
    pre: len(c) == 1
    post: _
    """
    return _expect("bulk.tuned_fg", lambda v: _bulk("tuned_fg", v), c + "", esc1(c))


def prop_bulk_tuned_fg_2(c: str, d: str) -> bool:
    """
    pre: len(c) == 1 and len(d) == 1
    post: _
    """
    return _expect("bulk.tuned_fg", lambda v: _bulk("tuned_fg", v), c + d, esc1(c) + esc1(d))


def prop_bulk_selector_1(c: str) -> bool:
    """
    pre: len(c) == 1
    post: _
    """
    return _expect("bulk.selector", lambda v: _bulk("selector", v), c + "", esc1(c))


def prop_bulk_selector_2(c: str, d: str) -> bool:
    """
    pre: len(c) == 1 and len(d) == 1
    post: _
    """
    return _expect("bulk.selector", lambda v: _bulk("selector", v), c + d, esc1(c) + esc1(d))


def prop_bulk_file_1(c: str) -> bool:
    """
    pre: len(c) == 1
    post: _
    """
    return _expect("bulk.file", lambda v: _bulk("file", v), c + "", esc1(c))


def prop_bulk_file_2(c: str, d: str) -> bool:
    """
    pre: len(c) == 1 and len(d) == 1
    post: _
    """
    return _expect("bulk.file", lambda v: _bulk("file", v), c + d, esc1(c) + esc1(d))


def prop_cli_selector_1(c: str) -> bool:
    """
    pre: len(c) == 1
    post: _
    """
    return _expect("cli.selector", lambda v: _cli("selector", v), c + "", esc1(c))


def prop_cli_selector_2(c: str, d: str) -> bool:
    """
    pre: len(c) == 1 and len(d) == 1
    post: _
    """
    return _expect("cli.selector", lambda v: _cli("selector", v), c + d, esc1(c) + esc1(d))


def prop_cli_file_1(c: str) -> bool:
    """
    pre: len(c) == 1
    post: _
    """
    return _expect("cli.file", lambda v: _cli("file", v), c + "", esc1(c))


def prop_cli_file_2(c: str, d: str) -> bool:
    """
    pre: len(c) == 1 and len(d) == 1
    post: _
    """
    return _expect("cli.file", lambda v: _cli("file", v), c + d, esc1(c) + esc1(d))


def prop_cli_bg_1(c: str) -> bool:
    """
    pre: len(c) == 1
    post: _
    """
    return _expect("cli.bg", lambda v: _cli("bg", v), c + "", esc1(c))


def prop_cli_bg_2(c: str, d: str) -> bool:
    """
    pre: len(c) == 1 and len(d) == 1
    post: _
    """
    return _expect("cli.bg", lambda v: _cli("bg", v), c + d, esc1(c) + esc1(d))


def prop_cli_original_text_1(c: str) -> bool:
    """
    pre: len(c) == 1
    post: _
    """
    return _expect("cli.original_text", lambda v: _cli("original_text", v), c + "", esc1(c))


def prop_cli_original_text_2(c: str, d: str) -> bool:
    """
    pre: len(c) == 1 and len(d) == 1
    post: _
    """
    return _expect("cli.original_text", lambda v: _cli("original_text", v), c + d, esc1(c) + esc1(d))


def prop_cli_tuned_text_1(c: str) -> bool:
    """
    pre: len(c) == 1
    post: _
    """
    return _expect("cli.tuned_text", lambda v: _cli("tuned_text", v), c + "", esc1(c))


def prop_cli_tuned_text_2(c: str, d: str) -> bool:
    """
    pre: len(c) == 1 and len(d) == 1
    post: _
    """
    return _expect("cli.tuned_text", lambda v: _cli("tuned_text", v), c + d, esc1(c) + esc1(d))


def prop_cli_original_level_1(c: str) -> bool:
    """
    pre: len(c) == 1
    post: _
    """
    return _expect("cli.original_level", lambda v: _cli("original_level", v), c + "", esc1(c))


def prop_cli_original_level_2(c: str, d: str) -> bool:
    """
    pre: len(c) == 1 and len(d) == 1
    post: _
    """
    return _expect("cli.original_level", lambda v: _cli("original_level", v), c + d, esc1(c) + esc1(d))


def prop_cli_new_level_1(c: str) -> bool:
    """
    pre: len(c) == 1
    post: _
    """
    return _expect("cli.new_level", lambda v: _cli("new_level", v), c + "", esc1(c))


def prop_cli_new_level_2(c: str, d: str) -> bool:
    """
    pre: len(c) == 1 and len(d) == 1
    post: _
    """
    return _expect("cli.new_level", lambda v: _cli("new_level", v), c + d, esc1(c) + esc1(d))


# ---- one symbolic slot while every OTHER user-controlled slot is empty (falsy): 'show X when Y is empty' fallbacks must escape too

_CARD_USER = ("fg", "bg", "tuned_fg", "selector", "file_path")
_BULK_USER = ("fg", "bg", "tuned_fg", "selector", "file")
_CLI_USER = ("selector", "file", "bg", "original_text", "tuned_text")


def _card_e(slot, s):
    kw = dict(BASE)
    for k in _CARD_USER:
        kw[k] = ""
    kw[slot] = s
    return visualiser.to_html(**kw)


def _bulk_e(slot, s):
    pair = dict(original_level="FAIL", new_level="AA")
    for k in _BULK_USER:
        pair[k] = ""
    pair[slot] = s
    return _capture(visualiser, lambda: visualiser.to_html_bulk([pair], output_path="x.html"))


def _cli_e(slot, s):
    pair = dict(original_level="FAIL", new_level="AA")
    for k in _CLI_USER:
        pair[k] = ""
    pair[slot] = s
    return _capture(html_report, lambda: html_report.generate_report([pair], output_path="x.html"))


def prop_card_fg_others_empty(c: str) -> bool:
    """
    pre: len(c) == 1
    post: _
    """
    return _expect("card_e.fg", lambda v: _card_e("fg", v), c + "", esc1(c))


def prop_card_bg_others_empty(c: str) -> bool:
    """
    pre: len(c) == 1
    post: _
    """
    return _expect("card_e.bg", lambda v: _card_e("bg", v), c + "", esc1(c))


def prop_card_tuned_fg_others_empty(c: str) -> bool:
    """
    pre: len(c) == 1
    post: _
    """
    return _expect("card_e.tuned_fg", lambda v: _card_e("tuned_fg", v), c + "", esc1(c))


def prop_card_selector_others_empty(c: str) -> bool:
    """
    pre: len(c) == 1
    post: _
    """
    return _expect("card_e.selector", lambda v: _card_e("selector", v), c + "", esc1(c))


def prop_card_file_path_others_empty(c: str) -> bool:
    """
    pre: len(c) == 1
    post: _
    """
    return _expect("card_e.file_path", lambda v: _card_e("file_path", v), c + "", esc1(c))


def prop_bulk_fg_others_empty(c: str) -> bool:
    """
    pre: len(c) == 1
    post: _
    """
    return _expect("bulk_e.fg", lambda v: _bulk_e("fg", v), c + "", esc1(c))


def prop_bulk_bg_others_empty(c: str) -> bool:
    """
    pre: len(c) == 1
    post: _
    """
    return _expect("bulk_e.bg", lambda v: _bulk_e("bg", v), c + "", esc1(c))


def prop_bulk_tuned_fg_others_empty(c: str) -> bool:
    """
    pre: len(c) == 1
    post: _
    """
    return _expect("bulk_e.tuned_fg", lambda v: _bulk_e("tuned_fg", v), c + "", esc1(c))


def prop_bulk_selector_others_empty(c: str) -> bool:
    """
    pre: len(c) == 1
    post: _
    """
    return _expect("bulk_e.selector", lambda v: _bulk_e("selector", v), c + "", esc1(c))


def prop_bulk_file_others_empty(c: str) -> bool:
    """
    pre: len(c) == 1
    post: _
    """
    return _expect("bulk_e.file", lambda v: _bulk_e("file", v), c + "", esc1(c))


def prop_cli_selector_others_empty(c: str) -> bool:
    """
    pre: len(c) == 1
    post: _
    """
    return _expect("cli_e.selector", lambda v: _cli_e("selector", v), c + "", esc1(c))


def prop_cli_file_others_empty(c: str) -> bool:
    """
    pre: len(c) == 1
    post: _
    """
    return _expect("cli_e.file", lambda v: _cli_e("file", v), c + "", esc1(c))


def prop_cli_bg_others_empty(c: str) -> bool:
    """
    pre: len(c) == 1
    post: _
    """
    return _expect("cli_e.bg", lambda v: _cli_e("bg", v), c + "", esc1(c))


def prop_cli_original_text_others_empty(c: str) -> bool:
    """
    pre: len(c) == 1
    post: _
    """
    return _expect("cli_e.original_text", lambda v: _cli_e("original_text", v), c + "", esc1(c))


def prop_cli_tuned_text_others_empty(c: str) -> bool:
    """
    pre: len(c) == 1
    post: _
    """
    return _expect("cli_e.tuned_text", lambda v: _cli_e("tuned_text", v), c + "", esc1(c))

