"""E3: python regex literal -> z3 regular expression (subset), for language-level lemmas over ALL strings.

Supported: literals, escapes (\\( \\) \\. \\- ...), \\w \\s \\d, character classes [...] with ranges and \\w/\\s/\\d inside,
'.', groups (capturing / (?:...)), alternation, quantifiers ? * + {m} {m,n}.  Anything else raises.
"""
import ast
import sre_parse  # noqa: deprecated alias, still shipped; gives the parsed tree of the REAL pattern

import z3

try:
    import re._parser as sre_parse  # python >= 3.11
    import re._constants as sre_c
except ImportError:  # pragma: no cover
    import sre_constants as sre_c


def _cls_word():
    return z3.Union(z3.Range("a", "z"), z3.Range("A", "Z"), z3.Range("0", "9"), z3.Re("_"))


def _cls_space():
    return z3.Union(*[z3.Re(c) for c in " \t\n\r\x0b\x0c"])


def _cls_digit():
    return z3.Range("0", "9")


def _category(cat):
    name = str(cat)
    if name.endswith("CATEGORY_WORD"):
        return _cls_word()
    if name.endswith("CATEGORY_SPACE"):
        return _cls_space()
    if name.endswith("CATEGORY_DIGIT"):
        return _cls_digit()
    raise ValueError("unsupported category %s" % name)


ANY = None


def any_char():
    return z3.AllChar(z3.ReSort(z3.StringSort()))


def to_z3(pattern):
    tree = sre_parse.parse(pattern)
    return _seq(tree)


def _seq(items):
    parts = [_node(op, av) for op, av in items]
    if not parts:
        return z3.Re("")
    if len(parts) == 1:
        return parts[0]
    return z3.Concat(*parts)


def _node(op, av):
    name = str(op)
    if name == "LITERAL":
        return z3.Re(chr(av))
    if name == "ANY":
        return any_char()   # '.' without DOTALL excludes newline; an over-approximation that only widens both sides equally
    if name == "IN":
        alts = []
        neg = False
        for o, a in av:
            n = str(o)
            if n == "NEGATE":
                neg = True
            elif n == "LITERAL":
                alts.append(z3.Re(chr(a)))
            elif n == "RANGE":
                alts.append(z3.Range(chr(a[0]), chr(a[1])))
            elif n == "CATEGORY":
                alts.append(_category(a))
            else:
                raise ValueError("unsupported class item %s" % n)
        u = alts[0] if len(alts) == 1 else z3.Union(*alts)
        if neg:
            return z3.Intersect(any_char(), z3.Complement(u))
        return u
    if name == "SUBPATTERN":
        return _seq(av[3])
    if name == "BRANCH":
        bs = [_seq(b) for b in av[1]]
        return bs[0] if len(bs) == 1 else z3.Union(*bs)
    if name in ("MAX_REPEAT", "MIN_REPEAT"):
        lo, hi, sub = av
        r = _seq(sub)
        if hi == sre_c.MAXREPEAT:
            if lo == 0:
                return z3.Star(r)
            if lo == 1:
                return z3.Plus(r)
            return z3.Concat(*([r] * lo + [z3.Star(r)]))
        if lo == 0 and hi == 1:
            return z3.Option(r)
        return z3.Loop(r, lo, hi)
    if name == "CATEGORY":
        return _category(av)
    raise ValueError("unsupported regex construct %s" % name)


def searches(pattern):
    """the language of strings on which re.search(pattern, s) succeeds: .* pattern .*"""
    a = z3.Star(any_char())
    return z3.Concat(a, to_z3(pattern), a)


def regex_literals(path, must_contain):
    """regex string literals passed to re.compile / re.search / re.match / re.fullmatch in a source file"""
    tree = ast.parse(open(path).read())
    out = []
    for node in ast.walk(tree):
        if isinstance(node, ast.Call) and isinstance(node.func, ast.Attribute) and node.func.attr in ("compile", "search", "match", "fullmatch", "findall", "sub"):
            if node.args and isinstance(node.args[0], ast.Constant) and isinstance(node.args[0].value, str):
                if must_contain in node.args[0].value:
                    out.append((node.lineno, node.func.attr, node.args[0].value))
    return out
