"""Check runner: jobs in a process pool, obligations discharged per path, counterexamples
replayed on the unmodified real code, evidence written, exit code contract.

exit 0  every obligation discharged (unsat) within the stated bounds
exit 1  a solver model was replayed on the real code and reproduced -> 'VIOLATION property=.. replay=..'
exit 2  inconclusive (unknown / timeout / sat that does not reproduce / harness error)
"""
from __future__ import annotations

import hashlib
import json
import multiprocessing as mp
import os
import subprocess
import sys
import time
import traceback
from fractions import Fraction

import z3

from . import solve, symx

VERIF = os.path.dirname(os.path.dirname(os.path.abspath(__file__)))
REPLAYS = os.path.join(VERIF, "replays")
EVIDENCE = os.path.join(VERIF, "evidence")
KNOWN = os.path.join(VERIF, "known_findings.txt")
PY = os.path.join(VERIF, ".venv", "bin", "python")


def jsonable(x):
    if isinstance(x, Fraction):
        return {"frac": [x.numerator, x.denominator], "approx": float(x)}
    if isinstance(x, dict):
        return {str(k): jsonable(v) for k, v in x.items()}
    if isinstance(x, (list, tuple)):
        return [jsonable(v) for v in x]
    if isinstance(x, (str, int, float, bool)) or x is None:
        return x
    return str(x)


def unjson(x):
    if isinstance(x, dict):
        if set(x.keys()) == {"frac", "approx"}:
            return Fraction(x["frac"][0], x["frac"][1])
        return {k: unjson(v) for k, v in x.items()}
    if isinstance(x, list):
        return [unjson(v) for v in x]
    return x


# --------------------------------------------------------------------------
# replay
# --------------------------------------------------------------------------

def write_replay(check_id, kind, inputs, note=""):
    os.makedirs(REPLAYS, exist_ok=True)
    payload = json.dumps(jsonable(inputs), sort_keys=True)
    h = hashlib.sha1((check_id + kind + payload).encode()).hexdigest()[:10]
    path = os.path.join(REPLAYS, "%s_%s_%s.py" % (check_id, kind.replace("/", "-").replace(" ", "_")[:40], h))
    with open(path, "w") as f:
        f.write("#!/usr/bin/env python\n")
        f.write('"""Replay of a solver counterexample for %s (%s) on the unmodified real code.\n%s\n' % (check_id, kind, note))
        f.write("exit 1 = the violation reproduces, exit 0 = it does not.\n\"\"\"\n")
        f.write("import json, sys\nsys.path.insert(0, %r)\n" % VERIF)
        f.write("from vf.replay import run\n")
        f.write("sys.exit(run(%r, %r, json.loads(%r)))\n" % (check_id, kind, payload))
    return path


def run_replay(path, timeout=600):
    env = dict(os.environ)
    env.pop("PYTHONPATH", None)
    try:
        p = subprocess.run([PY if os.path.exists(PY) else sys.executable, path], capture_output=True, text=True,
                           timeout=timeout, env=env)
    except subprocess.TimeoutExpired:
        return None, "replay timeout"
    out = (p.stdout + p.stderr).strip()
    if p.returncode == 1:
        return True, out
    if p.returncode == 0:
        return False, out
    return None, out


_SYM_CACHE = {}


def _symbols(t):
    """names of the uninterpreted constants (variables) occurring in t"""
    i = t.get_id()
    hit = _SYM_CACHE.get(i)
    if hit is not None and hit[1].get_id() == i:
        return hit[0]
    acc, seen, stack = set(), set(), [t]
    while stack:
        x = stack.pop()
        xi = x.get_id()
        if xi in seen:
            continue
        seen.add(xi)
        if z3.is_const(x) and x.decl().kind() == z3.Z3_OP_UNINTERPRETED:
            acc.add(x.decl().name())
        else:
            stack.extend(x.children())
    fs = frozenset(acc)
    if len(_SYM_CACHE) > 200000:
        _SYM_CACHE.clear()
    _SYM_CACHE[i] = (fs, t)
    return fs


def _uf_apps(terms, names):
    seen, out = set(), []
    stack = list(terms)
    while stack:
        t = stack.pop()
        i = t.get_id()
        if i in seen:
            continue
        seen.add(i)
        if z3.is_app(t):
            d = t.decl()
            if d.kind() == z3.Z3_OP_UNINTERPRETED and t.num_args() > 0 and d.name() in names:
                out.append(t)
            stack.extend(t.children())
    return out


def _uf_names(t, seen=None, acc=None):
    if seen is None:
        seen, acc = set(), set()
    i = t.get_id()
    if i in seen:
        return acc
    seen.add(i)
    if z3.is_app(t):
        d = t.decl()
        if d.kind() == z3.Z3_OP_UNINTERPRETED and t.num_args() > 0:
            acc.add(d.name())
        for c in t.children():
            _uf_names(c, seen, acc)
    return acc


_LADDER_CACHE = {}


def run_ladder(check_id, kind, job, timeout=240):
    key = (check_id, kind, json.dumps(job, sort_keys=True))
    if key in _LADDER_CACHE:
        return _LADDER_CACHE[key]
    env = dict(os.environ)
    env.pop("PYTHONPATH", None)
    hit = None
    try:
        p = subprocess.run([PY if os.path.exists(PY) else sys.executable, os.path.join(VERIF, "vf", "ladder.py"), check_id, kind,
                            json.dumps(job)], capture_output=True, text=True, timeout=timeout, env=env, cwd=VERIF)
        last = [l for l in p.stdout.splitlines() if l.startswith("{")]
        if last:
            hit = unjson(json.loads(last[-1])).get("hit")
    except subprocess.TimeoutExpired:
        hit = None
    _LADDER_CACHE[key] = hit
    return hit


# --------------------------------------------------------------------------
# path discharge (worker side)
# --------------------------------------------------------------------------

class JobOut:
    def __init__(self, job):
        self.d = dict(job=job, paths=0, obligations=0, discharged=0, sat=0, unknown=0, queries=0,
                      solver_time=0.0, violations=[], inconclusive=[], samples=[], names={}, stats={},
                      cut_bound=0, notes=[])

    def sample(self, s):
        if len(self.d["samples"]) < 4:
            self.d["samples"].append(s)


def discharge(check_id, job, pr, out, replay_kind, describe=None, timeout_ms=4000, ext_timeout_s=180,
              max_models=6, cex_inputs=None, names_filter=None):
    """Discharge all obligations of one path.  Counterexamples are replayed on the real code."""
    cons = pr.constraints()
    light = pr.constraints(heavy=False) if pr.heavy else None
    out.d["paths"] += 1
    todo = [(n, g, m, False) for (n, g, m) in pr.obligations]
    done_ok = set()
    while todo:
        name, goal, meta, is_fallback = todo.pop(0)
        if not is_fallback:
            out.d["obligations"] += 1
            out.d["names"][name] = out.d["names"].get(name, 0) + 1
        blocked = []
        verdict = None
        tries = 0
        acons, agoal = None, None
        if meta.get("rewrite"):
            # rewriting with equalities that are themselves among the path's constraints (sound: equals for equals)
            rw = meta["rewrite"]
            eqs = [l == r for (l, r) in rw]
            acons = [z3.substitute(c, *rw) for c in (light if light is not None else cons)] + eqs
            agoal = z3.substitute(goal, *rw)
            drop = set(meta.get("drop_ufs") or [])
            if drop:
                # forget every constraint that talks about the named uninterpreted functions (dropping constraints is sound)
                acons = [c for c in acons if not (_uf_names(c) & drop)]
        if meta.get("abstract") and all(r in done_ok for r in meta.get("requires", [])):
            # sound over-approximation: chosen sub-terms become fresh reals constrained only by lemmas that
            # earlier obligations of this path have established; unsat of the abstraction implies unsat of the original
            subs = [(t, z3.Real("abs!%s" % nm)) for (t, nm) in meta["abstract"]]
            # 'keep': the caller names the path constraints that matter (a subset of them: dropping the others is sound)
            base = meta["keep"] if meta.get("keep") else (light if light is not None else cons)
            acons = [z3.substitute(c, *subs) for c in base]
            acons += [z3.substitute(l, *subs) for l in meta.get("lemmas", [])]
            agoal = z3.substitute(goal, *subs)
        while True:
            t0 = time.time()
            v = None
            if meta.get("polylin") and tries == 0 and all(r in done_ok for r in meta["polylin"].get("requires", [])):
                # linearisation by monomial abstraction (vf/polylin.py): sound, decided by z3's linear arithmetic
                from . import polylin
                pl = meta["polylin"]
                base_c = (acons if acons is not None else (light if light is not None else cons)) + list(pl.get("lemmas", []))
                base_g = agoal if agoal is not None else goal
                ranges = list(pl.get("var_ranges", []))
                for app in _uf_apps(base_c + [base_g], set(pl.get("uf_ranges", {}).keys())):
                    lo, hi = pl["uf_ranges"][app.decl().name()]
                    ranges.append((app, lo, hi))
                v, info = polylin.prove(base_c, base_g, ranges)
                out.d["queries"] += 1
                model = None
                info["solver"] = "z3-5.1.0 LRA after monomial abstraction (%s monomials)" % info.get("monomials")
                info["time_s"] = 0
                if v != "unsat":
                    v = None
            if v is None and meta.get("fp") and tries == 0:
                from . import fpprove
                v, info = fpprove.prove(cons, goal)
                out.d["queries"] += info.get("queries", 0)
                model = None
                info["solver"] = "z3-5.1.0 compositional FP proof (%d small queries, level %s)" % (info.get("queries", 0), info.get("level"))
                info["time_s"] = info.get("time_s", 0)
                if v != "unsat":
                    v = None
            if v is None and acons is not None and tries == 0:
                v, model, info = solve.decide(acons, z3.Not(agoal), {}, timeout_ms=timeout_ms, ext_timeout_s=ext_timeout_s)
                out.d["queries"] += 1
                if v != "unsat":
                    v = None
                else:
                    info["solver"] = (info.get("winner") or info["solver"]) + " [abstraction + lemmas]"
            if v is None and light is not None and tries == 0 and out.d.get("inproc_unknown_streak", 0) < 3:
                # sound shortcut: fewer assumptions (no enclosure tables); unsat here implies unsat with them
                v, model, info = solve.decide(light, z3.Not(goal), pr.inputs, timeout_ms=min(timeout_ms, 3000),
                                              use_external=False)
                out.d["queries"] += 1
                if v != "unsat":
                    v = None
                else:
                    info["solver"] += " [without tables]"
            if v is None:
                # adaptive: when the in-process solver keeps answering 'unknown' in this job (typically NRA), stop waiting for it
                streak = out.d.get("inproc_unknown_streak", 0)
                tmo = timeout_ms if streak < 3 else 1200
                v, model, info = solve.decide(cons + blocked, z3.Not(goal), pr.inputs, timeout_ms=tmo,
                                              ext_timeout_s=ext_timeout_s)
                out.d["queries"] += 1
                if "external" in info:
                    out.d["inproc_unknown_streak"] = streak + 1
                else:
                    out.d["inproc_unknown_streak"] = 0
                if v == "unknown" and tries == 0:
                    # every solver gave up within its budget: one more in-process attempt with a long budget and another seed
                    s3 = z3.Solver()
                    s3.set("timeout", 30000)
                    s3.set("random_seed", 17 + solve.SEED)
                    s3.add(*(cons + blocked))
                    s3.add(z3.Not(goal))
                    out.d["queries"] += 1
                    if s3.check() == z3.unsat:
                        v = "unsat"
                        info = {"solver": "z3-5.1.0(in-process, 30 s retry)", "time_s": 30}
                if v == "unknown" and tries == 0 and acons is None:
                    # last resort: only the constraints whose symbols all occur in the goal (sound: a subset of the assumptions);
                    # on very long paths the rest is about other candidates and only costs case splits
                    gv = _symbols(goal)
                    if not gv and pr.pc:
                        gv = _symbols(pr.pc[-1])     # 'this path cannot happen': the literal that entered the raising branch
                    focus = [c for c in (light if light is not None else cons) if _symbols(c) <= gv]
                    v2, _, info2 = solve.decide(focus, z3.Not(goal), pr.inputs, timeout_ms=5000, ext_timeout_s=60)
                    out.d["queries"] += 1
                    if v2 == "unsat":
                        v, info = "unsat", info2
                        info["solver"] = (info.get("winner") or info["solver"]) + " [constraints over the goal's symbols only]"
            out.d["solver_time"] += time.time() - t0
            out.d.setdefault("time_by_name", {})
            out.d["time_by_name"][name] = out.d["time_by_name"].get(name, 0.0) + time.time() - t0
            if os.environ.get("VERIF_TRACE"):
                print("TRACE %s path=%d %r -> %s %.2fs %s" % (json.dumps(job), pr.index, name, v, time.time() - t0,
                                                              info.get("winner") or info.get("solver")), file=sys.stderr)
            if v == "unsat":
                if tries == 0:
                    out.d["discharged"] += 1
                    done_ok.add(name)
                    if len(out.d["samples"]) < 4:     # (the pretty-printer is slow on large terms: only for the samples kept)
                        z3.set_option(max_depth=6, max_args=8, max_lines=12)
                        out.sample({"obligation": name, "path": pr.index, "decisions": len(pr.decisions),
                                    "verdict": "unsat", "solver": info.get("winner") or info["solver"],
                                    "time_s": info["time_s"], "job": job,
                                    "goal_term": str(goal).replace("\n", " ")[:400],
                                    "path_condition_size": len(pr.pc), "side_constraints": len(pr.side) + len(pr.heavy)})
                    verdict = "unsat"
                else:
                    verdict = "unreproduced"
                break
            if v == "unknown":
                verdict = "unknown" if tries == 0 else "unreproduced"
                out.d["notes"].append({"obligation": name, "info": info})
                break
            # sat: replay on the real code
            if meta.get("key") and known_match(load_known()[0], check_id, meta["key"]) and tries >= 1:
                # the obligation is the call site of a listed known finding; one replay attempt was made already
                verdict = "known-abstract"
                break
            if out.d.get("unreproduced_budget", 0) >= 3:
                verdict = "unreproduced"   # this job already showed models that do not replay; do not burn time on more
                break
            tries += 1
            rk = meta.get("replay", replay_kind)
            inputs = dict(model)
            inputs["_job"] = job
            inputs["_obligation"] = name
            if meta.get("extra"):
                inputs["_extra"] = meta["extra"]
            path = write_replay(check_id, rk, inputs, note="obligation: %s" % name)
            ok, detail = run_replay(path)
            if ok:
                viol = {"obligation": name, "replay": path, "inputs": jsonable(model),
                        "detail": detail[-2000:], "kind": rk, "job": job}
                if meta.get("key"):
                    viol["key"] = meta["key"]
                out.d["violations"].append(viol)
                verdict = "violated"
                break
            try:
                os.remove(path)
            except OSError:
                pass
            if tries >= max_models:
                verdict = "unreproduced"
                out.d["notes"].append({"obligation": name, "last_model": jsonable(model), "detail": (detail or "")[-500:]})
                break
            # block this assignment of the integer/bool inputs and ask for another model
            lits = []
            for n, var in pr.inputs.items():
                val = model.get(n)
                if isinstance(val, bool):
                    lits.append(var != val)
                elif isinstance(val, int) and var.sort().kind() == z3.Z3_INT_SORT:
                    lits.append(var != val)
                elif isinstance(val, (int, Fraction)):
                    lits.append(z3.Or(var < symx.rv(val) - symx.rv(Fraction(1, 8)), var > symx.rv(val) + symx.rv(Fraction(1, 8))))
            if not lits:
                verdict = "unreproduced"
                break
            blocked.append(z3.Or(*lits))
        if verdict in ("unreproduced", "known-abstract") and meta.get("key") and known_match(load_known()[0], check_id, meta["key"]):
            # listed known finding: the solver still finds the defect at this call site (this model did not concretise)
            out.d["violations"].append({"obligation": name, "replay": None, "inputs": jsonable(model or {}), "detail": "abstract witness",
                                        "kind": meta.get("replay", replay_kind), "job": job, "key": meta["key"]})
            out.d["sat"] += 1
            continue
        if verdict == "unreproduced":
            out.d["unreproduced_budget"] = out.d.get("unreproduced_budget", 0) + 1
        if verdict == "unreproduced" and not meta.get("no_ladder") and out.d.get("unreproduced_budget", 0) <= 1:
            # solver said sat on an abstraction, the model does not replay: walk the concretisation ladder
            rk = meta.get("replay", replay_kind)
            hit = run_ladder(check_id, rk, job)
            if hit is not None:
                inputs = dict(hit)
                inputs["_obligation"] = name
                path = write_replay(check_id, rk, inputs, note="obligation: %s (solver sat on the abstraction; concretised by the ladder)" % name)
                ok, detail = run_replay(path)
                if ok:
                    viol = {"obligation": name, "replay": path, "inputs": jsonable({k: v for k, v in hit.items() if not k.startswith("_")}),
                            "detail": detail[-2000:], "kind": rk, "job": job, "via": "ladder"}
                    if meta.get("key"):
                        viol["key"] = meta["key"]
                    out.d["violations"].append(viol)
                    verdict = "violated"
        if verdict in ("unknown", "unreproduced") and meta.get("fallback") is not None:
            # the goal was a sufficient (stronger, cheaper) form: decide the property-level form instead
            m2 = dict(meta)
            fb = m2.pop("fallback")
            todo.insert(0, (name, fb, m2, True))
            continue
        if verdict == "violated":
            out.d["sat"] += 1
            v = out.d["violations"][-1]
            key = v.get("key")
            if not (key and known_match(load_known()[0], check_id, key)):
                # a new, reproduced violation: nothing more to learn from this job
                raise symx.Stop()
        elif verdict in ("unknown", "unreproduced"):
            out.d["unknown"] += 1
            out.d["inconclusive"].append({"obligation": name, "why": verdict, "path": pr.index, "job": job})
            if out.d.get("unreproduced_budget", 0) >= 6:
                raise symx.Stop()   # the job is inconclusive anyway


# --------------------------------------------------------------------------
# main side
# --------------------------------------------------------------------------

RETRIES = 2          # re-runs of a job that ended inconclusive (never of one that reproduced a violation)


def _shard_key(modname, job):
    j = dict(job)
    if isinstance(j.get("shard"), (list, tuple)) and len(j["shard"]) == 3:
        j["shard"] = ["*", j["shard"][1], j["shard"][2]]
    return hashlib.sha1((modname + json.dumps(j, sort_keys=True)).encode()).hexdigest()[:16]


def _worker(args):
    modname, job, seed = args
    t0 = time.time()
    try:
        import importlib
        mod = importlib.import_module(modname)
        attempts = []
        for attempt in range(RETRIES + 1):
            # A job whose obligations did not all come back unsat is explored again from scratch: which infeasible paths survive
            # the feasibility budget (and so which non-linear 'this path cannot happen' queries are asked at all) depends on
            # timing, and such a query is occasionally one that no solver of the portfolio finishes.  A re-run prunes harder
            # (feasibility budget x4 per attempt) and uses other solver seeds.  It can only turn 'unknown' into a complete
            # proof of the same job (every path, every obligation) or leave it inconclusive; a reproduced violation is final.
            symx.SHARD_KEY = _shard_key(modname, job)
            symx.SHARD_SEQ = 0
            symx.FEAS_SCALE = 4 ** attempt
            solve.SEED = 0 if attempt == 0 else 1000 * attempt + 7
            res = mod.run_job(job)
            attempts.append({"attempt": attempt, "paths": res.get("paths"), "obligations": res.get("obligations"),
                             "unknown": res.get("unknown"), "inconclusive": res.get("inconclusive", [])[:3],
                             "wall_s": round(time.time() - t0, 1)})
            if res.get("violations") or not res.get("inconclusive"):
                break
        res["attempts"] = attempts
        res["wall_s"] = time.time() - t0
        res["solve_stats"] = dict(solve.STATS)
        return res
    except symx.Budget as b:
        return {"job": job, "error": "budget: %s" % (b,), "wall_s": time.time() - t0}
    except BaseException as e:  # noqa
        return {"job": job, "error": "".join(traceback.format_exception(type(e), e, e.__traceback__))[-3000:],
                "wall_s": time.time() - t0}


def load_known():
    known, fixed = [], []
    if os.path.exists(KNOWN):
        for line in open(KNOWN):
            line = line.strip()
            if line.startswith("KNOWN-FINDING:"):
                known.append(line)
            elif line.startswith("fixed:"):
                fixed.append(line)
    return known, fixed


def known_match(known, prop, key):
    for line in known:
        if ("property=%s " % prop) in line and ("key=%s " % key) in (line + " "):
            return line
    return None


def main(check_id, modname, jobs, tier, seed, meta, finding_key=None):
    """Run all jobs, aggregate, write evidence, print verdict lines, return exit code."""
    t0 = time.time()
    nproc = int(os.environ.get("VERIF_JOBS", "0")) or min(16, os.cpu_count() or 4)
    order = list(range(len(jobs)))
    if seed:
        import random
        random.Random(seed).shuffle(order)
    args = [(modname, jobs[i], seed) for i in order]
    import shutil
    import tempfile
    scratch = tempfile.mkdtemp(prefix="vf_shards_")     # one prefix list per sharded job, shared by its shards (symx.shared_prefixes)
    os.environ["VERIF_SHARD_DIR"] = scratch
    try:
        results = _run_all(check_id, modname, args, nproc, len(jobs))
    finally:
        shutil.rmtree(scratch, ignore_errors=True)
        os.environ.pop("VERIF_SHARD_DIR", None)
    return _report(check_id, jobs, tier, seed, meta, finding_key, results, t0)


def _run_all(check_id, modname, args, nproc, njobs):
    if nproc == 1 or njobs == 1:
        results = [_worker(a) for a in args]
    else:
        ctx = mp.get_context("fork")
        results = []
        known0 = load_known()[0]
        with ctx.Pool(min(nproc, njobs)) as pool:
            for r in pool.imap_unordered(_worker, args, chunksize=1):
                results.append(r)
                if os.environ.get("VERIF_VERBOSE"):
                    print("job done %.1fs %s paths=%s obl=%s dis=%s %s" % (r.get("wall_s", 0), json.dumps(r.get("job")), r.get("paths"),
                          r.get("obligations"), r.get("discharged"), r.get("error", "")[:300]), file=sys.stderr)
                fresh = [v for v in r.get("violations", [])
                         if not (v.get("key") and known_match(known0, check_id, v["key"]))]
                if fresh and os.environ.get("VERIF_ALL_VIOLATIONS") != "1":
                    pool.terminate()   # a reproduced violation decides the run; do not burn the budget
                    break
    return results


def _report(check_id, jobs, tier, seed, meta, finding_key, results, t0):
    agg = dict(paths=0, obligations=0, discharged=0, unknown=0, queries=0, solver_time=0.0, cut_bound=0,
               feas_queries=0, feas_time=0.0, feas_unknown=0)
    names = {}
    violations, inconclusive, errors, samples, notes = [], [], [], [], []
    by_solver = {}
    retried = []
    for r in results:
        if "error" in r:
            errors.append({"job": r.get("job"), "error": r["error"]})
            continue
        if len(r.get("attempts", [])) > 1:
            retried.append({"job": r.get("job"), "attempts": r["attempts"]})
        for k in ("paths", "obligations", "discharged", "unknown", "queries", "solver_time", "cut_bound"):
            agg[k] += r.get(k, 0)
        st = r.get("stats", {})
        agg["feas_queries"] += st.get("feas_queries", 0)
        agg["feas_time"] += st.get("feas_time", 0.0)
        agg["feas_unknown"] += st.get("feas_unknown", 0)
        agg["cut_bound"] += st.get("cut_bound", 0)
        for n, c in r.get("names", {}).items():
            names[n] = names.get(n, 0) + c
        violations.extend(r.get("violations", []))
        inconclusive.extend(r.get("inconclusive", []))
        notes.extend(r.get("notes", [])[:3])
        for s in r.get("samples", []):
            if len(samples) < 12:
                samples.append(s)
        for s, c in r.get("solve_stats", {}).get("by_solver", {}).items():
            by_solver[s] = by_solver.get(s, 0) + c
    known, fixed = load_known()
    new_violations = []
    known_hits = []
    for v in violations:
        key = v.get("key") or (finding_key(v) if finding_key else None)
        line = known_match(known, check_id, key) if key else None
        if line:
            known_hits.append((key, line, v))
        else:
            new_violations.append(v)
    seen = set()
    for key, line, v in known_hits:
        if key in seen:
            continue
        seen.add(key)
        print(line)
    for v in new_violations:
        print("VIOLATION property=%s replay=%s" % (check_id, v["replay"]))
        print("  obligation=%s inputs=%s" % (v["obligation"], json.dumps(v["inputs"])[:600]))
    wall = time.time() - t0
    vacuous = agg["paths"] == 0 or agg["obligations"] == 0
    cov = dict(
        explanation=meta["explanation"],
        functions_encoded=meta["functions"],
        bounds=meta["bounds"],
        outside_bounds=meta.get("outside", []),
        stubs=meta.get("stubs", []),
        jobs=len(jobs),
        paths_explored=agg["paths"],
        paths_cut_at_stated_bound=agg["cut_bound"],
        obligations=agg["obligations"],
        discharged=agg["discharged"],
        obligations_by_name=names,
        solver_queries=agg["queries"],
        feasibility_queries=agg["feas_queries"],
        feasibility_unknown_kept_both=agg["feas_unknown"],
        solver_time_s=round(agg["solver_time"], 3),
        feasibility_time_s=round(agg["feas_time"], 3),
        answers_by_solver=by_solver,
        evaluations=max(agg["obligations"], 1),
        distinct_nontrivial=max(agg["discharged"], 0),
        rule="one evaluation = one proof obligation on one feasible path of the real function(s) under one job "
             "(setting / spelling template); distinct by (job, path decisions, obligation name); non-trivial = "
             "the path condition is satisfiable (checked) and the obligation was sent to the solver and came back unsat",
        samples=samples or [{"note": "no obligation discharged"}],
        checker_cmd=meta.get("checker_cmd", "./check %s --tier %s" % (check_id, tier)),
        trusted_base=meta.get("trusted", []),
        exhaustive=False,
        known_findings_hit=[k for k, _, _ in known_hits],
        inconclusive=inconclusive[:20],
        jobs_rerun_after_an_inconclusive_attempt=retried[:20],
        errors=errors[:5],
        solver_notes=notes[:10],
        violations=[{"obligation": v["obligation"], "replay": v["replay"], "inputs": v["inputs"]} for v in new_violations][:20],
    )
    cov.update(meta.get("extra_coverage", {}))
    ev = dict(property_id=check_id, tier=tier, seed=int(seed or 0), level=meta.get("level", "other"), coverage=cov,
              assumptions=meta.get("assumptions", []), wall_s=round(wall, 2), violations=len(new_violations))
    os.makedirs(EVIDENCE, exist_ok=True)
    with open(os.path.join(EVIDENCE, "%s.json" % check_id), "w") as f:
        json.dump(jsonable(ev), f, indent=1)
    print("%s tier=%s jobs=%d paths=%d obligations=%d discharged=%d unknown=%d violations=%d known=%d errors=%d wall=%.1fs"
          % (check_id, tier, len(jobs), agg["paths"], agg["obligations"], agg["discharged"], agg["unknown"],
             len(new_violations), len(seen), len(errors), wall))
    if new_violations:
        return 1
    if errors:
        for e in errors[:3]:
            print("HARNESS-ERROR job=%s\n%s" % (json.dumps(e["job"]), e["error"]), file=sys.stderr)
        return 2
    if inconclusive or vacuous:
        for i in inconclusive[:5]:
            print("INCONCLUSIVE %s" % json.dumps(i), file=sys.stderr)
        if vacuous:
            print("INCONCLUSIVE vacuous run (no path / no obligation)", file=sys.stderr)
        return 2
    # every obligation not accounted for as discharged must be a known finding
    if agg["discharged"] + len(violations) < agg["obligations"] and not new_violations:
        print("INCONCLUSIVE accounting mismatch", file=sys.stderr)
        return 2
    return 0
